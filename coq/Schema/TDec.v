(* T_dec: the generated Decode under picobuf's Loop = the reference decoder (Ref.ref_decode),
   on ARBITRARY input bytes, with failure on exactly the inputs the reference rejects.
   Built from the token contract of each emitted statement. *)
From Coq Require Import List ZArith Lia Bool Arith.
From Pico Require Import Base.Res Base.ListX Base.Mach Wire.Wire Schema.Types Schema.Scalar Schema.Gen Schema.Conv Schema.Interp Ref.Ref
  Wire.VarintProofs Wire.WireProofs Schema.ScalarProofs Dec.Dec Dec.ReaderProofs Dec.SafetyProofs Dec.LoopEquiv Dec.LoopInst
  Dec.TokenBridge Dec.StreamLoop Dec.ReaderBridge Schema.DecOps Schema.TEnc.
Import ListNotations.
Open Scope Z_scope.

(* ---------------------------------------------------------------- generic *)
Lemma bytes_ok_next_field a st : bytes_ok (buf st) -> bytes_ok (buf (next_field a st)).
Proof.
  intros Hb. unfold next_field. destruct ((a <? 0) || negb (has_len_z (buf st) a)); [exact Hb|].
  pose proof (bytes_ok_skipn (Z.to_nat a) (buf st) Hb) as Hs.
  destruct (skipn (Z.to_nat a) (buf st)) as [|y l]; [constructor|].
  destruct (consume_tag (y :: l)) as [[f w] n]. destruct (n <? 0); [exact Hs|].
  destruct (negb (valid_number f)); [exact Hs|]. cbn [buf]. apply bytes_ok_skipn. exact Hs.
Qed.

Section Trans.
Context {T : Type}.
Variable h : token -> T -> option T.

(* a reader that, after one contract step, either stops or continues with another contract step *)
Lemma step_ok_trans st t st1 t1 st2 t2 :
  step_ok h st t st1 t1 -> bytes_ok (buf st2) ->
  (err st1 <> None -> err st2 <> None) ->
  (err st1 = None -> pfv st1 = true -> (st2 = st1 /\ t2 = t1) \/ step_ok h st1 t1 st2 t2) ->
  (err st1 = None -> pfv st1 = false -> st2 = st1 /\ t2 = t1) ->
  step_ok h st t st2 t2.
Proof.
  intros [Hb1 H1] Hb2 Hst Hcont Hstop. split; [exact Hb2|].
  destruct (st_tokens st) as [ts|].
  - destruct H1 as [[He1 Hf]|[He1 [ts1 [ts2 [Ets [Hne [Hf Hnext]]]]]]]; [left; split; [apply Hst, He1|exact Hf]|].
    destruct Hnext as [[-> Hd]|[Hv1 [Es1 Hlt]]].
    + destruct (Hstop He1 (pfv_done st1 Hd)) as [-> ->]. right. split; [exact He1|].
      exists ts1, []. repeat split; try assumption. left. split; [reflexivity|exact Hd].
    + destruct (Hcont He1 Hv1) as [[-> ->]|[_ H2]].
      * right. split; [exact He1|]. exists ts1, ts2. repeat split; try assumption. right. repeat split; assumption.
      * rewrite Es1 in H2. destruct H2 as [[He2 Hf2]|[He2 [ta [tb [Eab [Hna [Hfa Hnext2]]]]]]].
        -- left. split; [exact He2|]. rewrite Ets, fold_opt_app, Hf. exact Hf2.
        -- right. split; [exact He2|]. exists (ts1 ++ ta), tb. split; [rewrite Ets, Eab, app_assoc; reflexivity|].
           split; [destruct ts1; [congruence|discriminate]|]. split; [rewrite fold_opt_app, Hf; exact Hfa|].
           destruct Hnext2 as [Hd2|[Hv2 [Es2 Hlt2]]]; [left; exact Hd2|right; repeat split; try assumption; lia].
  - destruct H1 as [He1|[He1 [Hv1 [Es1 Hlt]]]]; [left; apply Hst, He1|].
    destruct (Hcont He1 Hv1) as [[-> ->]|[_ H2]]; [right; repeat split; assumption|].
    rewrite Es1 in H2. destruct H2 as [He2|[He2 [Hv2 [Es2 Hlt2]]]]; [left; exact He2|right; repeat split; try assumption; lia].
Qed.
End Trans.

(* ---------------------------------------------------------------- fields *)
Definition hfield (s : schema) (rrec : nat -> bytes -> msgv -> option msgv) (m : mdesc) (slot : nat) (f : fdesc)
  : token -> msgv -> option msgv :=
  fun tok t => match apply_known s rrec m slot f tok (fst t) with Some fs => Some (fs, snd t) | None => None end.

Lemma apply_token_known s rrec m tok t slot f : find_field m (t_num tok) = Some (slot, f) ->
  apply_token s rrec m tok t = hfield s rrec m slot f tok t.
Proof. intros E. unfold apply_token, hfield. rewrite E. reflexivity. Qed.

Lemma clear_siblings_none m f slot fs : foneof f = None -> clear_siblings m f slot fs = fs.
Proof. intros E. unfold clear_siblings, oneof_siblings. rewrite E. reflexivity. Qed.

Lemma clear_siblings_model m f slot fs :
  fold_left (fun fs0 sib => set_nth fs0 sib (match slot_get fs0 sib with VMsg _ => VMsg None | _ => VOpt None end)) (oneof_siblings m f slot) fs
  = clear_siblings m f slot fs.
Proof. reflexivity. Qed.

(* field_info facts *)
Lemma info_scalar s f k : f_custom f = CNone -> fty f = TScalar k -> i_kind (field_info s f) = GInternal k.
Proof. intros Hc Ht. unfold field_info. rewrite Hc, Ht. destruct (is_bytes_kind k); reflexivity. Qed.
Lemma info_enum s f : f_custom f = CNone -> fty f = TEnum -> i_kind (field_info s f) = GEnum.
Proof. intros Hc Ht. unfold field_info. rewrite Hc, Ht. reflexivity. Qed.
Lemma info_oneof s f : i_oneof (field_info s f) = match foneof f with Some _ => true | None => false end.
Proof. unfold field_info. destruct (fty f); try destruct (is_bytes_kind k); reflexivity. Qed.
Lemma info_not_repeated s f : flabel f <> LRepeated -> i_repeated (field_info s f) = false.
Proof. intros H. unfold field_info. destruct (flabel f); [| |congruence]; destruct (fty f); try destruct (is_bytes_kind k); reflexivity. Qed.
Lemma info_oneof_nonmsg_ptr s f : foneof f <> None -> (forall idx, fty f <> TMsg idx) -> i_pointer (field_info s f) = false.
Proof.
  intros Ho Hm. unfold field_info. destruct (foneof f) as [o|]; [|congruence].
  destruct (fty f) as [k| |idx|kk vk|]; try (exfalso; apply (Hm idx); reflexivity); destruct (flabel f); cbn;
    destruct (f_always_present f); try destruct (is_bytes_kind k); reflexivity.
Qed.

Lemma hfield_scalar s rrec m slot f k tok t :
  f_custom f = CNone -> (fty f = TScalar k \/ (fty f = TEnum /\ k = KInt32)) -> i_repeated (field_info s f) = false ->
  hfield s rrec m slot f tok t =
  match tok_scalar k tok with
  | Some x => Some (set_nth (clear_siblings m f slot (fst t)) slot
                      (if i_oneof (field_info s f) || i_pointer (field_info s f) then VOpt (Some x) else x), snd t)
  | None => None
  end.
Proof.
  intros Hc Ht Hr. unfold hfield, apply_known. rewrite Hc, Hr.
  destruct Ht as [Ht|[Ht ->]]; rewrite Ht; cbn [kind_of_ftype]; destruct (tok_scalar _ tok); reflexivity.
Qed.

Section Fields.
Variables (s : schema) (progs : list prog) (F' : nat).
Let F := S F'.
Variable rec : nat -> @body msgv.
Variable rrec : nat -> bytes -> msgv -> option msgv.
Variable m : mdesc.
Variable h : token -> msgv -> option msgv.
Variable B : nat.

(* singular / optional / oneof scalar and enum fields *)
Lemma scalar_like_ok k slot f op :
  f_custom f = CNone -> (fty f = TScalar k \/ (fty f = TEnum /\ k = KInt32)) -> flabel f <> LRepeated ->
  gen_field_decode s (oneof_siblings m f slot) slot f = GOk op ->
  (forall tok t, t_num tok = fnum f -> h tok t = hfield s rrec m slot f tok t) ->
  reader_ok h B (op_reader progs F rec op).
Proof.
  intros Hc Ht Hl Hg Hh.
  pose proof (info_not_repeated s f Hl) as Hrep. pose proof (info_oneof s f) as Hone.
  assert (Hhs : forall tok t, t_num tok = fnum f -> h tok t =
            match tok_scalar k tok with
            | Some x => Some (set_nth (clear_siblings m f slot (fst t)) slot
                               (if i_oneof (field_info s f) || i_pointer (field_info s f) then VOpt (Some x) else x), snd t)
            | None => None end).
  { intros tok t E. rewrite (Hh tok t E). apply hfield_scalar; assumption. }
  clear Hh.
  (* the emitted statement *)
  assert (Hop : (i_oneof (field_info s f) = true /\ i_pointer (field_info s f) = false /\
                 op = DOneof slot (fnum f) (oneof_siblings m f slot)
                        (match fty f with TEnum => DEnum slot (fnum f) | _ => DScalar k false false slot (fnum f) end)) \/
                (i_oneof (field_info s f) = false /\ foneof f = None /\
                 op = (match fty f with TEnum => DEnum slot (fnum f) | _ => DScalar k false (i_pointer (field_info s f)) slot (fnum f) end) /\
                 (fty f = TEnum -> i_pointer (field_info s f) = false))).
  { unfold gen_field_decode in Hg. rewrite Hrep in Hg. cbn [andb] in Hg. rewrite Hone in *.
    destruct Ht as [Ht|[Ht ->]].
    - rewrite (info_scalar s f k Hc Ht) in Hg. rewrite Ht. destruct (foneof f) as [o|] eqn:Eo.
      + left. assert (Hp : i_pointer (field_info s f) = false).
        { apply info_oneof_nonmsg_ptr; [rewrite Eo; discriminate|intros idx; rewrite Ht; discriminate]. }
        rewrite Hp in Hg. injection Hg as <-. auto.
      + right. injection Hg as <-. repeat split; auto. discriminate.
    - rewrite (info_enum s f Hc Ht) in Hg. rewrite Ht. destruct (i_pointer (field_info s f)) eqn:Ep; [discriminate Hg|].
      destruct (foneof f) as [o|] eqn:Eo; injection Hg as <-; [left|right]; auto. }
  intros st t HB He Hb _ Hm.
  destruct Hop as [[Ho [Hp ->]]|[Ho [Hno [-> Hpe]]]].
  - (* oneof member *)
    cbn [op_reader rmatch rrun] in *. cbn [op_match] in Hm. unfold dec_op. cbn [op_match]. rewrite Hm. cbn [dec_op_run]. rewrite Hm.
    apply Z.eqb_eq in Hm. rewrite clear_siblings_model.
    set (cleared := clear_siblings m f slot (fst t)).
    assert (G : forall kk cur, kk = k ->
              let '(st1, t1) := (let '(st', x) := dec_single kk (fnum f) st cur in (st', set_slot (cleared, snd t) slot (VOpt (Some x)))) in
              step_ok h st t st1 t1).
    { intros kk cur ->.
      pose proof (single_step h k (fnum f) (fun _ => cur) (fun t0 x => set_slot (clear_siblings m f slot (fst t0), snd t0) slot (VOpt (Some x))) st t He Hb Hm) as Hs.
      cbv beta in Hs. destruct (dec_single k (fnum f) st cur) as [st1 x]. apply Hs.
      intros tok E. rewrite (Hhs tok t E). rewrite Ho. cbn [orb]. reflexivity. }
    destruct (fty f); try (apply G; reflexivity).
    destruct Ht as [Ht|[_ ->]]; [discriminate Ht|]. apply G. reflexivity.
  - (* plain or optional field *)
    cbn [op_reader rmatch rrun] in *.
    assert (G : forall kk, kk = k -> pf st = fnum f ->
              (i_pointer (field_info s f) = false ->
               let '(st1, t1) := (let '(st', x) := dec_single kk (fnum f) st (slot_get (fst t) slot) in (st', set_slot t slot x)) in
               step_ok h st t st1 t1) /\
              (i_pointer (field_info s f) = true ->
               let '(st1, t1) := (let '(st', x) := dec_single kk (fnum f) st (zero_scalar kk) in (st', set_slot t slot (VOpt (Some x)))) in
               step_ok h st t st1 t1)).
    { intros kk -> Hpf. split; intros Hp.
      - pose proof (single_step h k (fnum f) (fun t0 => slot_get (fst t0) slot) (fun t0 x => set_slot t0 slot x) st t He Hb Hpf) as Hs.
        cbv beta in Hs. destruct (dec_single k (fnum f) st (slot_get (fst t) slot)) as [st1 x]. apply Hs.
        intros tok E. rewrite (Hhs tok t E). rewrite Ho, Hp. cbn [orb]. rewrite (clear_siblings_none m f slot (fst t) Hno). reflexivity.
      - pose proof (single_step h k (fnum f) (fun _ => zero_scalar k) (fun t0 x => set_slot t0 slot (VOpt (Some x))) st t He Hb Hpf) as Hs.
        cbv beta in Hs. destruct (dec_single k (fnum f) st (zero_scalar k)) as [st1 x]. apply Hs.
        intros tok E. rewrite (Hhs tok t E). rewrite Ho, Hp. cbn [orb]. rewrite (clear_siblings_none m f slot (fst t) Hno). reflexivity. }
    destruct (fty f) eqn:Ety.
    1,3,4,5: (cbn [op_match] in Hm; unfold dec_op; cbn [op_match]; rewrite Hm; cbn [dec_op_run]; pose proof Hm as Hm'; apply Z.eqb_eq in Hm';
              destruct (G k eq_refl Hm') as [G1 G2]; destruct (i_pointer (field_info s f)) eqn:Ep; [rewrite Hm; apply G2; reflexivity|apply G1; reflexivity]).
    cbn [op_match] in Hm. unfold dec_op. cbn [op_match]. rewrite Hm. cbn [dec_op_run]. apply Z.eqb_eq in Hm.
    destruct Ht as [Ht|[_ ->]]; [discriminate Ht|]. destruct (G KInt32 eq_refl Hm) as [G1 _]. apply G1. apply Hpe. reflexivity.
Qed.
End Fields.

(* ---------------------------------------------------------------- unknown fields *)
Section Unknown.
Variable h : token -> msgv -> option msgv.
Variable B : nat.

(* Loop's skip, for a message that does not keep unknown fields *)
Lemma skip_ignored st t :
  err st = None -> bytes_ok (buf st) ->
  (forall tok, t_num tok = pf st -> h tok t = Some t) ->
  step_ok h st t (skip st) t.
Proof. intros He Hb Hh. apply skip_step; [exact He|exact Hb|]. intros p k _. apply Hh. reflexivity. Qed.

Definition unrec_tok (mask : Z) (num : Z) : bool := (64 <=? num) || negb (Z.testbit mask num).

Lemma unrec_unfold fuel mask st out : dec_unrecognized (S fuel) mask st out =
  if unrec_match mask st then
    let n := consume_field_value (pf st) (pw st) (buf st) in
    if n <? 0 then (fail (pf st) EParse st, out)
    else dec_unrecognized fuel mask (next_field n st) (out ++ pw_append_tag (pf st) (pw st) ++ firstn (Z.to_nat n) (buf st))
  else (st, out).
Proof. reflexivity. Qed.

(* UnrecognizedFields(mask, &m.XXX_unrecognized): consecutive unknown fields are appended re-tagged *)
Lemma unrec_loop mask :
  (forall tok t, unrec_tok mask (t_num tok) = true ->
     h tok t = Some (fst t, snd t ++ spec_tag (t_num tok) (t_wt tok) ++ t_raw tok)) ->
  forall fuel st fs out, err st = None -> bytes_ok (buf st) -> pfv st = true -> unrec_match mask st = true ->
  let '(st', out') := dec_unrecognized (S fuel) mask st out in step_ok h st (fs, out) st' (fs, out').
Proof.
  intros Hh. induction fuel as [|fuel IH]; intros st fs out He Hb Hv Hm.
  - (* one field *)
    rewrite unrec_unfold. rewrite Hm. cbv zeta. cbn [dec_unrecognized].
    pose proof (cfv_parse_value (pf st) (pw st) (buf st) Hb) as Hc.
    destruct (parse_value (pf st) (pw st) (buf st)) as [[p k]|] eqn:Ep.
    + destruct Hc as [Hc Hk]. rewrite Hc. replace (Z.of_nat k <? 0) with false by (symmetry; apply Z.ltb_ge; lia).
      apply one_token_step; [exact He|exact Hb|]. rewrite Ep.
      assert (Hu : unrec_tok mask (pf st) = true).
      { unfold unrec_match in Hm. apply andb_true_iff in Hm. exact (proj2 Hm). }
      rewrite (Hh (tok_of st p k) (fs, out) Hu). cbn [fst snd tok_of t_num t_wt t_raw]. split; [reflexivity|].
      rewrite Nat2Z.id. f_equal. f_equal. f_equal.
      apply pw_append_tag_spec.
      * unfold pfv, valid_number, MaxValidNumber in Hv. apply andb_true_iff in Hv. destruct Hv as [H1 H2].
        apply Z.leb_le in H1. apply Z.leb_le in H2. lia.
      * apply parse_value_wire in Ep. destruct p; lia.
    + replace (consume_field_value (pf st) (pw st) (buf st) <? 0) with true by (symmetry; apply Z.ltb_lt; lia).
      apply one_token_step; [exact He|exact Hb|]. rewrite Ep. cbn. split; [discriminate|exact Hb].
  - rewrite unrec_unfold. rewrite Hm. cbv zeta.
    pose proof (cfv_parse_value (pf st) (pw st) (buf st) Hb) as Hc.
    destruct (parse_value (pf st) (pw st) (buf st)) as [[p k]|] eqn:Ep.
    + destruct Hc as [Hc Hk]. rewrite Hc. replace (Z.of_nat k <? 0) with false by (symmetry; apply Z.ltb_ge; lia).
      set (st1 := next_field (Z.of_nat k) st).
      set (out1 := out ++ pw_append_tag (pf st) (pw st) ++ firstn (Z.to_nat (Z.of_nat k)) (buf st)).
      assert (S1 : step_ok h st (fs, out) st1 (fs, out1)).
      { specialize (IH st fs out He Hb Hv Hm). clear IH.
        apply one_token_step; [exact He|exact Hb|]. rewrite Ep.
        assert (Hu : unrec_tok mask (pf st) = true).
        { unfold unrec_match in Hm. apply andb_true_iff in Hm. exact (proj2 Hm). }
        rewrite (Hh (tok_of st p k) (fs, out) Hu). cbn [fst snd tok_of t_num t_wt t_raw]. split; [reflexivity|].
        unfold out1. rewrite Nat2Z.id. f_equal. f_equal. f_equal.
        apply pw_append_tag_spec.
        * unfold pfv, valid_number, MaxValidNumber in Hv. apply andb_true_iff in Hv. destruct Hv as [H1 H2].
          apply Z.leb_le in H1. apply Z.leb_le in H2. lia.
        * apply parse_value_wire in Ep. destruct p; lia. }
      destruct (unrec_facts mask (S fuel) st1 out1) as [_ [_ [I3 I4]]].
      destruct (unrec_match mask st1) eqn:Em1.
      * specialize (IH st1 fs out1).
        destruct (dec_unrecognized (S fuel) mask st1 out1) as [st2 out2] eqn:E2. cbn [fst] in *.
        destruct (err st1) eqn:Ee1.
        -- apply (step_ok_trans h st (fs, out) st1 (fs, out1) st2 (fs, out2) S1).
           ++ (* buffer of st2: sub-buffer *) 
              destruct S1 as [Hb1 _].
              assert (Hbb : forall fu s0 o0, bytes_ok (buf s0) -> bytes_ok (buf (fst (dec_unrecognized fu mask s0 o0)))).
              { induction fu as [|fu IHf]; intros s0 o0 H0; [exact H0|]. cbn [dec_unrecognized].
                destruct ((0 <=? pf s0) && ((64 <=? pf s0) || negb (Z.testbit mask (pf s0)))); [|exact H0].
                destruct (consume_field_value (pf s0) (pw s0) (buf s0) <? 0); [exact H0|]. apply IHf, bytes_ok_next_field, H0. }
              pose proof (Hbb (S fuel) st1 out1 Hb1) as Hx. rewrite E2 in Hx. exact Hx.
           ++ intros _. apply I3. congruence.
           ++ intros Hc1. congruence.
           ++ intros Hc1. congruence.
        -- destruct S1 as [Hb1 S1']. assert (Hv1 : pfv st1 = true) by (apply (unrec_match_valid mask st1 (inv_next_field _ _) Em1)).
           specialize (IH eq_refl Hb1 Hv1 Em1).
           apply (step_ok_trans h st (fs, out) st1 (fs, out1) st2 (fs, out2) (conj Hb1 S1')).
           ++ destruct IH as [Hb2 _]. exact Hb2.
           ++ intros Hc1. congruence.
           ++ intros _ _. right. exact IH.
           ++ intros _ Hc1. congruence.
      * rewrite (I4 eq_refl). exact S1.
    + replace (consume_field_value (pf st) (pw st) (buf st) <? 0) with true by (symmetry; apply Z.ltb_lt; lia).
      apply one_token_step; [exact He|exact Hb|]. rewrite Ep. cbn. split; [discriminate|exact Hb].
Qed.
End Unknown.

(* ---------------------------------------------------------------- one message *)
Section Message.
Variables (progs : list prog) (F' : nat).
Let F := S F'.
Variable rec : nat -> @body msgv.
Hypothesis rec_sticky : forall idx, sticky_fn (rec idx).
Variable ops : list dop.
Hypothesis ops_ok : forall op, In op ops -> op_num_ok op = true.
Hypothesis ops_disj : ops_disjoint ops.
Variable h : token -> msgv -> option msgv.
Variable B : nat.
Hypothesis HB : (B + 3 <= F)%nat.
Hypothesis readers_ok : forall op, In op ops -> reader_ok h B (op_reader progs F rec op).
Hypothesis skip_ok : forall st t, (blen st <= B)%nat -> err st = None -> bytes_ok (buf st) -> pfv st = true ->
  find (fun r => rmatch _ _ r st) (map (op_reader progs F rec) ops) = None -> step_ok h st t (skip st) t.

(* Message(..., Decode) / Unmarshal on a buffer b: the Loop over the Decode body computes the
   fold of the token handler over the reference tokens of b, and fails exactly when that fails *)
Theorem msg_decode_ok b st0 t : bytes_ok b -> (length b <= B)%nat -> err st0 = None ->
  let '(st', t') := Dec.loop F (dec_body progs F rec ops) (push_state b st0) t in
  match tokens b with
  | None => err st' <> None
  | Some ts => match fold_opt h ts (Some t) with
               | Some t'' => err st' = None /\ t' = t''
               | None => err st' <> None
               end
  end.
Proof.
  intros Hb Hl He0. unfold push_state. unfold F in *.
  assert (Hst : forall r, In r (map (op_reader progs (S F') rec) ops) -> reader_sticky r).
  { intros r Hr st t0 He. apply in_map_iff in Hr. destruct Hr as [op [<- Hin]]. cbn [rrun op_reader].
    apply (dec_op_sticky progs F' rec rec_sticky ops ops_ok op st t0 Hin He). }
  assert (Hro : forall r, In r (map (op_reader progs (S F') rec) ops) -> reader_ok h B r).
  { intros r Hr. apply in_map_iff in Hr. destruct Hr as [op [<- Hin]]. apply readers_ok, Hin. }
  destruct b as [|y l].
  - (* empty payload: one pass in which nothing matches *)
    change (next_field 0 {| pf := 0; pw := 0; buf := []; err := err st0 |}) with (mkst fieldDone 0 [] (err st0)).
    rewrite (body_loop_single_pass progs F' rec rec_sticky ops ops_ok ops_disj _ t (S F') (S F')); [|right; left; reflexivity|unfold blen; cbn; lia|unfold blen; cbn; lia].
    rewrite loop1_invalid by reflexivity. rewrite tokens_nil. cbn. split; [exact He0|reflexivity].
  - pose proof (tokens_enter (y :: l) 0 0 (err st0) Hb ltac:(discriminate)) as Hent. cbn zeta in Hent.
    change {| pf := 0; pw := 0; buf := y :: l; err := err st0 |} with (mkst 0 0 (y :: l) (err st0)).
    set (st := next_field 0 (mkst 0 0 (y :: l) (err st0))) in *.
    destruct Hent as [[Hv [Hee [Hst' [Hlen Hbb]]]]|[Hee [Hpf Htk]]].
    + rewrite (body_loop_single_pass progs F' rec rec_sticky ops ops_ok ops_disj st t (S F') (S F')); [|left; exact Hv|unfold blen; lia|unfold blen; lia].
      pose proof (loop1_stream h B (map (op_reader progs (S F') rec) ops) Hro Hst skip_ok (S F') st t ltac:(unfold blen; lia) ltac:(unfold blen; lia)
                    ltac:(congruence) Hbb Hv) as Hs.
      destruct (loop1 msgv dstate pfv skip (map (op_reader progs (S F') rec) ops) (S F') st t) as [st' t'].
      rewrite Hst' in Hs. destruct (tokens (y :: l)) as [ts|]; [|exact Hs].
      destruct (fold_opt h ts (Some t)) as [t''|]; [|exact Hs]. tauto.
    + rewrite (body_loop_single_pass progs F' rec rec_sticky ops ops_ok ops_disj st t (S F') (S F')); [|right; right; exact Hpf|unfold blen; pose proof (adv_weak _ _ (adv_next_field 0 (mkst 0 0 (y :: l) (err st0)))) as Hw; unfold blen in Hw; cbn [buf mkst] in Hw; fold st in Hw; lia|unfold blen; pose proof (adv_weak _ _ (adv_next_field 0 (mkst 0 0 (y :: l) (err st0)))) as Hw; unfold blen in Hw; cbn [buf mkst] in Hw; fold st in Hw; lia].
      rewrite loop1_invalid by (unfold pfv; rewrite Hpf; reflexivity). rewrite Htk. exact Hee.
Qed.
End Message.

(* ---------------------------------------------------------------- generated programs *)
From Coq Require Import Sorting.Permutation.

Lemma insert_by_num_perm x l : Permutation (insert_by_num x l) (x :: l).
Proof.
  induction l as [|y l IH]; cbn [insert_by_num]; [reflexivity|].
  destruct (fnum (snd x) <? fnum (snd y)); [reflexivity|].
  rewrite IH. apply perm_swap.
Qed.
Lemma sort_by_num_perm l : Permutation (sort_by_num l) l.
Proof.
  unfold sort_by_num. induction l as [|x l IH]; cbn [fold_right]; [reflexivity|].
  rewrite insert_by_num_perm. constructor. exact IH.
Qed.
Lemma number_from_snd {A} (l : list A) : forall n, map snd (number_from n l) = l.
Proof. induction l as [|x l IH]; intros n; cbn; [reflexivity|]. rewrite IH. reflexivity. Qed.
Lemma number_from_fst_lt {A} (l : list A) : forall n p, In p (number_from n l) -> (n <= fst p)%nat.
Proof. induction l as [|x l IH]; intros n p H; cbn in H; [contradiction|]. destruct H as [<-|H]; [cbn; lia|]. specialize (IH _ _ H). lia. Qed.
Lemma number_from_NoDup_fst {A} (l : list A) : forall n, NoDup (map fst (number_from n l)).
Proof.
  induction l as [|x l IH]; intros n; cbn; [constructor|]. constructor; [|apply IH].
  intros H. apply in_map_iff in H. destruct H as [p [E Hp]]. apply number_from_fst_lt in Hp. lia.
Qed.

Lemma find_unique {A} (g : A -> Z) (l : list A) x : NoDup (map g l) -> In x l -> find (fun p => g p =? g x) l = Some x.
Proof.
  induction l as [|y l IH]; intros Hnd Hin; [contradiction|]. cbn [map] in Hnd. inversion Hnd as [|? ? Hny Hnd']; subst.
  cbn [find]. destruct Hin as [->|Hin]; [rewrite Z.eqb_refl; reflexivity|].
  destruct (Z.eqb_spec (g y) (g x)) as [E|E]; [|apply IH; assumption].
  exfalso. apply Hny. rewrite E. apply in_map. exact Hin.
Qed.
Lemma find_absent {A} (g : A -> Z) (l : list A) v : (forall p, In p l -> g p <> v) -> find (fun p => g p =? v) l = None.
Proof.
  induction l as [|y l IH]; intros H; [reflexivity|]. cbn [find].
  destruct (Z.eqb_spec (g y) v) as [E|E]; [exfalso; apply (H y); [left; reflexivity|exact E]|]. apply IH. intros p Hp. apply H. right. exact Hp.
Qed.

Section MsgFacts.
Variable m : mdesc.
Hypothesis Hnd : NoDup (map fnum (mfields m)).

Lemma fields_nodup_num : NoDup (map (fun p : nat * fdesc => fnum (snd p)) (number_from 0 (mfields m))).
Proof. rewrite <- (map_map snd fnum). rewrite number_from_snd. exact Hnd. Qed.

Lemma find_field_known slot f : In (slot, f) (number_from 0 (mfields m)) -> find_field m (fnum f) = Some (slot, f).
Proof. intros Hin. unfold find_field. apply (find_unique (fun p : nat * fdesc => fnum (snd p)) _ (slot, f) fields_nodup_num Hin). Qed.
Lemma find_field_unknown num : (forall f, In f (mfields m) -> fnum f <> num) -> find_field m num = None.
Proof.
  intros H. unfold find_field. apply (find_absent (fun p : nat * fdesc => fnum (snd p))). intros p Hp.
  apply H. apply (number_from_In _ _ _ Hp).
Qed.
End MsgFacts.

(* the bit set of known field numbers *)
Lemma bitset_fold (fields : list fdesc) : (forall f, In f fields -> 0 <= fnum f) ->
  forall acc num, 0 <= num ->
  Z.testbit (fold_left (fun z f => Z.lor z (Z.shiftl 1 (fnum f))) fields acc) num =
  Z.testbit acc num || existsb (fun f => fnum f =? num) fields.
Proof.
  induction fields as [|f fields IH]; intros Hpos acc num Hn; cbn [fold_left existsb]; [rewrite orb_false_r; reflexivity|].
  rewrite IH; [|intros g Hg; apply Hpos; right; exact Hg|exact Hn].
  rewrite Z.lor_spec. rewrite Z.shiftl_spec by exact Hn.
  assert (Hf : 0 <= fnum f) by (apply Hpos; left; reflexivity).
  assert (E : Z.testbit 1 (num - fnum f) = (fnum f =? num)).
  { destruct (Z.eqb_spec (fnum f) num) as [->|Hne]; [rewrite Z.sub_diag; reflexivity|].
    destruct (Z.ltb_spec (num - fnum f) 0) as [Hneg|Hpos']; [apply Z.testbit_neg_r; exact Hneg|].
    change 1 with (2 ^ 0). apply Z.pow2_bits_false. lia. }
  rewrite E. rewrite <- orb_assoc. reflexivity.
Qed.

Lemma fields_bitset_spec m z : (forall f, In f (mfields m) -> 0 <= fnum f) -> fields_bitset m = GOk z ->
  (forall f, In f (mfields m) -> fnum f < 64) /\
  (forall num, 0 <= num -> Z.testbit z num = existsb (fun f => fnum f =? num) (mfields m)).
Proof.
  intros Hpos H. unfold fields_bitset in H.
  destruct (existsb (fun f => 64 <=? fnum f) (mfields m)) eqn:Ee; [discriminate H|]. injection H as <-. split.
  - intros f Hf. destruct (Z.ltb_spec (fnum f) 64) as [Hlt|Hge]; [exact Hlt|].
    assert (existsb (fun f => 64 <=? fnum f) (mfields m) = true) by (apply existsb_exists; exists f; split; [exact Hf|apply Z.leb_le; exact Hge]).
    congruence.
  - intros num Hn. rewrite (bitset_fold (mfields m) Hpos 0 num Hn). rewrite Z.bits_0. reflexivity.
Qed.

Lemma info_kind_not_custom s f : f_custom f <> COpaque ->
  i_kind (field_info s f) <> GCustom /\ i_kind (field_info s f) <> GCastOpaque.
Proof.
  intros Hc. unfold field_info. destruct (f_custom f); try congruence; destruct (fty f); try destruct (is_bytes_kind k); cbn; split; discriminate.
Qed.

Lemma gen_field_decode_match s sibs slot f op : gen_field_decode s sibs slot f = GOk op -> f_custom f <> COpaque ->
  (forall st, op_match op st = (pf st =? fnum f)) /\ op_num_ok op = valid_number (fnum f).
Proof.
  intros Hg Hc. destruct (info_kind_not_custom s f Hc) as [Hk1 Hk2]. unfold gen_field_decode in Hg.
  destruct (i_oneof (field_info s f)), (i_pointer (field_info s f)), (i_repeated (field_info s f)), (i_kind (field_info s f));
    try congruence; cbn in Hg; try discriminate Hg; injection Hg as <-; split; intros; reflexivity.
Qed.

Lemma Forall2_len {A B} (P : A -> B -> Prop) l ys : Forall2 P l ys -> length l = length ys.
Proof. induction 1; cbn; congruence. Qed.

(* the Decode program of an accepted message: one statement per field (ascending numbers), then UnrecognizedFields *)
Lemma gen_decode_shape s m ops : gen_decode s m = GOk ops ->
  exists fops, Forall2 (fun p op => gen_field_decode s (oneof_siblings m (snd p) (fst p)) (fst p) (snd p) = GOk op)
                       (sort_by_num (number_from 0 (mfields m))) fops /\
    ((m_capture m = false /\ ops = fops) \/ (m_capture m = true /\ exists z, fields_bitset m = GOk z /\ ops = fops ++ [DUnrec z])).
Proof.
  unfold gen_decode. intros H.
  destruct (gmap (fun p => gen_field_decode s (oneof_siblings m (snd p) (fst p)) (fst p) (snd p)) (sort_by_num (number_from 0 (mfields m)))) as [fops|r] eqn:Eg; [|discriminate H].
  exists fops. split; [exact (gmap_Forall2 _ _ _ Eg)|].
  destruct (m_capture m); [|left; injection H as <-; auto].
  destruct (fields_bitset m) as [z|r]; [|discriminate H]. injection H as <-. right. split; [reflexivity|]. exists z. auto.
Qed.

Section GenMsg.
Variables (s : schema) (progs : list prog) (F' : nat).
Let F := S F'.
Variable rec : nat -> @body msgv.
Variable rrec : nat -> bytes -> msgv -> option msgv.
Variable m : mdesc.
Variable ops : list dop.
Variable B : nat.
Hypothesis Hgen : gen_decode s m = GOk ops.
Hypothesis Hnd : NoDup (map fnum (mfields m)).
Hypothesis Hvalid : forall f, In f (mfields m) -> valid_number (fnum f) = true.
Hypothesis Hnoop : forall f, In f (mfields m) -> f_custom f <> COpaque.
Hypothesis rec_sticky : forall idx, sticky_fn (rec idx).
Hypothesis HB : (B + 3 <= F)%nat.
Hypothesis Hfield : forall slot f op, In (slot, f) (number_from 0 (mfields m)) ->
  gen_field_decode s (oneof_siblings m f slot) slot f = GOk op ->
  (forall tok t, t_num tok = fnum f -> apply_token s rrec m tok t = hfield s rrec m slot f tok t) ->
  reader_ok (apply_token s rrec m) B (op_reader progs F rec op).

Let sorted := sort_by_num (number_from 0 (mfields m)).
Lemma sorted_in p : In p sorted <-> In p (number_from 0 (mfields m)).
Proof. unfold sorted. split; intros H; [apply (Permutation_in _ (sort_by_num_perm _) H)|apply (Permutation_in _ (Permutation_sym (sort_by_num_perm _)) H)]. Qed.
Lemma sorted_nodup : NoDup (map (fun p : nat * fdesc => fnum (snd p)) sorted).
Proof.
  apply (Permutation_NoDup (l := map (fun p : nat * fdesc => fnum (snd p)) (number_from 0 (mfields m)))).
  - apply Permutation_map, Permutation_sym, sort_by_num_perm.
  - apply fields_nodup_num. exact Hnd.
Qed.
Lemma field_pos f : In f (mfields m) -> 1 <= fnum f.
Proof. intros H. pose proof (Hvalid f H) as Hv. unfold valid_number in Hv. apply andb_true_iff in Hv. destruct Hv as [H1 _]. apply Z.leb_le in H1. exact H1. Qed.

Theorem gen_msg_decode_ok b st0 t : bytes_ok b -> (length b <= B)%nat -> err st0 = None ->
  let '(st', t') := Dec.loop F (dec_body progs F rec ops) (push_state b st0) t in
  match tokens b with
  | None => err st' <> None
  | Some ts => match fold_opt (apply_token s rrec m) ts (Some t) with
               | Some t'' => err st' = None /\ t' = t''
               | None => err st' <> None
               end
  end.
Proof.
  destruct (gen_decode_shape s m ops Hgen) as [fops [F2 Hshape]]. fold sorted in F2.
  (* every field statement tests its own number *)
  assert (Hfop : forall i op, nth_error fops i = Some op -> exists slot f, nth_error sorted i = Some (slot, f) /\
             In (slot, f) (number_from 0 (mfields m)) /\ In f (mfields m) /\
             gen_field_decode s (oneof_siblings m f slot) slot f = GOk op /\
             (forall st, op_match op st = (pf st =? fnum f)) /\ op_num_ok op = true).
  { intros i op Hi. destruct (Forall2_nth _ _ _ F2 i op Hi) as [[slot f] [Hp Hg]]. cbn [fst snd] in Hg.
    assert (Hin : In (slot, f) (number_from 0 (mfields m))) by (apply sorted_in; apply (nth_error_In _ _ Hp)).
    assert (Hf : In f (mfields m)) by (apply (number_from_In _ _ _ Hin)).
    destruct (gen_field_decode_match s _ slot f op Hg (Hnoop f Hf)) as [M1 M2].
    exists slot, f. repeat split; try assumption. rewrite M2. apply Hvalid, Hf. }
  assert (Hfield_has_op : forall f, In f (mfields m) -> exists op, In op fops /\ forall st, op_match op st = (pf st =? fnum f)).
  { intros f Hf. assert (exists slot, In (slot, f) sorted) as [slot Hs].
    { assert (In f (map snd (number_from 0 (mfields m)))) as Hx by (rewrite number_from_snd; exact Hf).
      apply in_map_iff in Hx. destruct Hx as [[sl f'] [E Hx]]. cbn in E. subst f'. exists sl. apply sorted_in. exact Hx. }
    destruct (In_nth_error _ _ Hs) as [i Hi].
    assert (exists op, nth_error fops i = Some op) as [op Hop].
    { destruct (nth_error fops i) as [op|] eqn:E; [exists op; reflexivity|]. exfalso.
      apply nth_error_None in E. pose proof (Forall2_len _ _ _ F2) as Hl. assert (i < length sorted)%nat by (apply nth_error_Some; congruence). lia. }
    destruct (Hfop i op Hop) as [slot' [f' [Hp [_ [_ [_ [M _]]]]]]]. rewrite Hi in Hp. injection Hp as <- <-.
    exists op. split; [apply (nth_error_In _ _ Hop)|exact M]. }
  (* the tail *)
  assert (Hops : (m_capture m = false /\ ops = fops) \/
                 (m_capture m = true /\ exists z, ops = fops ++ [DUnrec z] /\ (forall f, In f (mfields m) -> fnum f < 64) /\
                    (forall num, 0 <= num -> Z.testbit z num = existsb (fun f => fnum f =? num) (mfields m)))).
  { destruct Hshape as [H|[Hc [z [Hz ->]]]]; [left; exact H|right]. split; [exact Hc|]. exists z. split; [reflexivity|].
    apply fields_bitset_spec; [|exact Hz]. intros f Hf. pose proof (field_pos f Hf). lia. }
  assert (Hunknown : forall num, (forall op, In op fops -> forall st, pf st = num -> op_match op st = false) ->
                       forall f, In f (mfields m) -> fnum f <> num).
  { intros num Hno f Hf E. destruct (Hfield_has_op f Hf) as [op [Hin M]].
    specialize (Hno op Hin (mkst num 0 [] None) eq_refl). rewrite M in Hno. cbn in Hno. rewrite E, Z.eqb_refl in Hno. discriminate. }
  assert (Hmask : forall z, (forall f, In f (mfields m) -> fnum f < 64) ->
                    (forall num, 0 <= num -> Z.testbit z num = existsb (fun f => fnum f =? num) (mfields m)) ->
                    forall num, unrec_tok z num = true -> forall f, In f (mfields m) -> fnum f <> num).
  { intros z H64 Hbit num Hu f Hf E. unfold unrec_tok in Hu. apply orb_true_iff in Hu. destruct Hu as [Hu|Hu].
    - apply Z.leb_le in Hu. specialize (H64 f Hf). lia.
    - pose proof (field_pos f Hf). rewrite Hbit in Hu by lia. apply negb_true_iff in Hu.
      assert (existsb (fun f0 => fnum f0 =? num) (mfields m) = true) by (apply existsb_exists; exists f; split; [exact Hf|apply Z.eqb_eq; exact E]).
      congruence. }
  apply (msg_decode_ok progs F' rec rec_sticky ops); try assumption.
  - (* ops_ok *)
    intros op Hin. destruct Hops as [[_ ->]|[_ [z [-> _]]]].
    + destruct (In_nth_error _ _ Hin) as [i Hi]. destruct (Hfop i op Hi) as [_ [_ [_ [_ [_ [_ [_ Hok]]]]]]]. exact Hok.
    + apply in_app_or in Hin. destruct Hin as [Hin|[<-|[]]]; [|reflexivity].
      destruct (In_nth_error _ _ Hin) as [i Hi]. destruct (Hfop i op Hi) as [_ [_ [_ [_ [_ [_ [_ Hok]]]]]]]. exact Hok.
  - (* disjoint *)
    assert (Hff : forall i j opi opj st, nth_error fops i = Some opi -> nth_error fops j = Some opj ->
              op_match opi st = true -> op_match opj st = true -> i = j).
    { intros i j opi opj st Hi Hj Mi Mj.
      destruct (Hfop i opi Hi) as [si [fi [Pi [_ [_ [_ [Mi' _]]]]]]]. destruct (Hfop j opj Hj) as [sj [fj [Pj [_ [_ [_ [Mj' _]]]]]]].
      rewrite Mi' in Mi. rewrite Mj' in Mj. apply Z.eqb_eq in Mi. apply Z.eqb_eq in Mj.
      apply (proj1 (NoDup_nth_error _) sorted_nodup).
      - rewrite map_length. apply nth_error_Some. congruence.
      - rewrite !nth_error_map, Pi, Pj. cbn. congruence. }
    intros i j opi opj st Hinv Hi Hj Mi Mj. destruct Hops as [[_ ->]|[_ [z [-> [H64 Hbit]]]]]; [exact (Hff i j opi opj st Hi Hj Mi Mj)|].
    assert (Hfu : forall i opi, nth_error fops i = Some opi -> op_match opi st = true -> unrec_match z st = true -> False).
    { intros i0 op0 H0 M0 Mu. destruct (Hfop i0 op0 H0) as [s0 [f0 [_ [_ [Hf0 [_ [M0' _]]]]]]]. rewrite M0' in M0. apply Z.eqb_eq in M0.
      unfold unrec_match in Mu. apply andb_true_iff in Mu. destruct Mu as [_ Mu].
      apply (Hmask z H64 Hbit (pf st) Mu f0 Hf0). congruence. }
    destruct (Nat.lt_ge_cases i (length fops)) as [Li|Li]; destruct (Nat.lt_ge_cases j (length fops)) as [Lj|Lj].
    + rewrite nth_error_app1 in Hi, Hj by assumption. exact (Hff i j opi opj st Hi Hj Mi Mj).
    + rewrite nth_error_app1 in Hi by assumption. rewrite nth_error_app2 in Hj by assumption.
      destruct (j - length fops)%nat as [|d]; [|destruct d; discriminate Hj]. injection Hj as <-. cbn [op_match] in Mj.
      exfalso. exact (Hfu i opi Hi Mi Mj).
    + rewrite nth_error_app1 in Hj by assumption. rewrite nth_error_app2 in Hi by assumption.
      destruct (i - length fops)%nat as [|d]; [|destruct d; discriminate Hi]. injection Hi as <-. cbn [op_match] in Mi.
      exfalso. exact (Hfu j opj Hj Mj Mi).
    + rewrite nth_error_app2 in Hi, Hj by assumption.
      destruct (i - length fops)%nat as [|d] eqn:Ei; [|destruct d; discriminate Hi].
      destruct (j - length fops)%nat as [|d] eqn:Ej; [|destruct d; discriminate Hj]. lia.
  - (* reader contracts *)
    assert (Hfr : forall op, In op fops -> reader_ok (apply_token s rrec m) B (op_reader progs (S F') rec op)).
    { intros op Hin. destruct (In_nth_error _ _ Hin) as [i Hi]. destruct (Hfop i op Hi) as [slot [f [_ [Hnf [_ [Hg _]]]]]].
      apply (Hfield slot f op Hnf Hg). intros tok t0 E. apply apply_token_known. rewrite E. apply find_field_known; assumption. }
    intros op Hin. destruct Hops as [[_ ->]|[Hcap [z [-> [H64 Hbit]]]]]; [apply Hfr, Hin|].
    apply in_app_or in Hin. destruct Hin as [Hin|[<-|[]]]; [apply Hfr, Hin|].
    intros st t0 HBl He Hb Hv Hm. cbn [op_reader rmatch rrun] in *. unfold dec_op. rewrite Hm. cbn [dec_op_run].
    pose proof (unrec_loop (apply_token s rrec m) z) as Hl.
    assert (Hh : forall tok t1, unrec_tok z (t_num tok) = true ->
              apply_token s rrec m tok t1 = Some (fst t1, snd t1 ++ spec_tag (t_num tok) (t_wt tok) ++ t_raw tok)).
    { intros tok t1 Hu. unfold apply_token. rewrite (find_field_unknown m (t_num tok)); [rewrite Hcap; reflexivity|].
      apply (Hmask z H64 Hbit). exact Hu. }
    destruct t0 as [fs0 un0]. cbn [fst snd]. specialize (Hl Hh F' st fs0 un0 He Hb Hv Hm).
    destruct (dec_unrecognized (S F') z st un0) as [st' out']. exact Hl.
  - (* skip *)
    intros st t0 HBl He Hb Hv Hfind.
    assert (Hnom : forall op, In op ops -> op_match op st = false).
    { intros op Hin. apply (find_none _ _ Hfind (op_reader progs (S F') rec op)). apply in_map. exact Hin. }
    destruct Hops as [[Hcap ->]|[Hcap [z [-> [H64 Hbit]]]]].
    + apply skip_ignored; [exact He|exact Hb|]. intros tok E. unfold apply_token.
      rewrite (find_field_unknown m (t_num tok)); [rewrite Hcap; reflexivity|].
      rewrite E. apply Hunknown. intros op Hin st1 E1. 
      destruct (In_nth_error _ _ Hin) as [i Hi]. destruct (Hfop i op Hi) as [_ [f0 [_ [_ [_ [_ [M0 _]]]]]]].
      pose proof (Hnom op Hin) as Hn. rewrite M0 in *. rewrite E1. exact Hn.
    + exfalso. pose proof (Hnom (DUnrec z) ltac:(apply in_or_app; right; left; reflexivity)) as Hu. cbn [op_match] in Hu.
      assert (Hpos : 1 <= pf st).
      { unfold pfv, valid_number in Hv. apply andb_true_iff in Hv. destruct Hv as [H1 _]. apply Z.leb_le in H1. exact H1. }
      replace (0 <=? pf st) with true in Hu by (symmetry; apply Z.leb_le; lia). cbn [andb] in Hu.
      apply orb_false_iff in Hu. destruct Hu as [_ Hu]. apply negb_false_iff in Hu. rewrite Hbit in Hu by lia.
      apply existsb_exists in Hu. destruct Hu as [f [Hf E]]. apply Z.eqb_eq in E.
      destruct (Hfield_has_op f Hf) as [op [Hin M]].
      pose proof (Hnom op ltac:(apply in_or_app; left; exact Hin)) as Hn. rewrite M, E, Z.eqb_refl in Hn. discriminate.
Qed.
End GenMsg.

(* ---------------------------------------------------------------- whole schemas *)
Definition wf_msg_dec (m : mdesc) : Prop :=
  NoDup (map fnum (mfields m)) /\ forall f, In f (mfields m) -> valid_number (fnum f) = true /\ f_custom f <> COpaque.
Definition wf_schema_dec (s : schema) : Prop := forall m, In m s -> wf_msg_dec m.

Lemma gen_decode_ops_ok s m ops : gen_decode s m = GOk ops -> wf_msg_dec m -> forall op, In op ops -> op_num_ok op = true.
Proof.
  intros Hg [_ Hwf] op Hin. destruct (gen_decode_shape s m ops Hg) as [fops [F2 Hshape]].
  assert (Hf : forall op, In op fops -> op_num_ok op = true).
  { intros o Ho. destruct (In_nth_error _ _ Ho) as [i Hi]. destruct (Forall2_nth _ _ _ F2 i o Hi) as [[slot f] [Hp Hgf]]. cbn [fst snd] in Hgf.
    assert (In f (mfields m)).
    { apply (number_from_In _ 0%nat (slot, f)). apply (Permutation_in _ (sort_by_num_perm _)). apply (nth_error_In _ _ Hp). }
    destruct (Hwf f H) as [Hv Hc]. destruct (gen_field_decode_match s _ slot f o Hgf Hc) as [_ M]. rewrite M. exact Hv. }
  destruct Hshape as [[_ ->]|[_ [z [_ ->]]]]; [apply Hf, Hin|].
  apply in_app_or in Hin. destruct Hin as [Hin|[<-|[]]]; [apply Hf, Hin|reflexivity].
Qed.

Lemma gen_all_nth s progs idx p : gen_all s = GOk progs -> nth_error progs idx = Some p ->
  exists m, nth_error s idx = Some m /\ gen_decode s m = GOk (p_dec p) /\ p_zero p = zero_fields s m.
Proof.
  intros Hgen Hp. unfold gen_all in Hgen. destruct (Forall2_nth _ _ _ (gmap_Forall2 _ _ _ Hgen) idx p Hp) as [m [Hm Hg]].
  exists m. split; [exact Hm|]. unfold gen_prog in Hg. destruct (gen_encode s m); [|discriminate Hg].
  destruct (gen_decode s m) as [d|]; [|discriminate Hg]. injection Hg as <-. split; reflexivity.
Qed.
Lemma gen_all_nth_s s progs idx m : gen_all s = GOk progs -> nth_error s idx = Some m -> exists p, nth_error progs idx = Some p.
Proof.
  intros Hgen Hm. unfold gen_all in Hgen. pose proof (Forall2_len _ _ _ (gmap_Forall2 _ _ _ Hgen)) as Hl.
  destruct (nth_error progs idx) as [p|] eqn:E; [exists p; reflexivity|]. apply nth_error_None in E.
  assert (idx < length s)%nat by (apply nth_error_Some; congruence). lia.
Qed.

(* dec.err is never cleared by any Decode method *)
Lemma dec_msg_sticky s progs F' : gen_all s = GOk progs -> wf_schema_dec s ->
  forall fuel idx, sticky_fn (dec_msg fuel progs (S F') idx).
Proof.
  intros Hgen Hwf. induction fuel as [|fuel IH]; intros idx st t He; [apply fail_err|]. cbn [dec_msg].
  destruct (nth_error progs idx) as [p|] eqn:Ep; [|apply fail_err].
  destruct (gen_all_nth s progs idx p Hgen Ep) as [m [Hm [Hg _]]].
  pose proof (gen_decode_ops_ok s m (p_dec p) Hg (Hwf m (nth_error_In _ _ Hm))) as Hok.
  unfold dec_body. revert st t He. generalize (incl_refl (p_dec p)). generalize (p_dec p) at 1 3 as ops.
  induction ops as [|op ops IHo]; intros Hincl st t He; [exact He|]. cbn [fold_left fst snd].
  pose proof (dec_op_sticky progs F' (dec_msg fuel progs (S F')) IH (p_dec p) Hok op st t (Hincl op (or_introl eq_refl)) He) as H1.
  destruct (dec_op progs (S F') (dec_msg fuel progs (S F')) op st t) as [st1 t1]. cbn [fst] in H1.
  apply IHo; [intros x Hx; apply Hincl; right; exact Hx|exact H1].
Qed.

(* ---------------------------------------------------------------- T_dec, first class of messages *)
Definition simple_field (f : fdesc) : Prop :=
  f_custom f = CNone /\ (exists k, fty f = TScalar k \/ (fty f = TEnum /\ k = KInt32)) /\ flabel f <> LRepeated.

(* Unmarshal of a message whose fields are singular / optional / oneof scalars and enums (any of
   the 15 kinds, any valid numbers, with or without capture of unknown fields): the result is the
   reference decoder's on EVERY byte string - equal value when it accepts, an error when it rejects *)
Theorem T_dec_simple s progs idx m data t0 g :
  gen_all s = GOk progs -> wf_schema_dec s -> nth_error s idx = Some m ->
  (forall f, In f (mfields m) -> simple_field f) -> bytes_ok data ->
  let r := pico_unmarshal progs idx data t0 in
  match ref_decode (S g) s idx data t0 with
  | Some t'' => fst r = None /\ snd r = t''
  | None => fst r <> None
  end.
Proof.
  intros Hgen Hwf Hm Hsimple Hb. cbv zeta. unfold pico_unmarshal.
  destruct (gen_all_nth_s s progs idx m Hgen Hm) as [p Hp].
  destruct (gen_all_nth s progs idx p Hgen Hp) as [m' [Hm' [Hg _]]]. rewrite Hm in Hm'. injection Hm' as <-.
  set (F' := S (S (length data))).
  change (S (S (S (length data)))) with (S F').
  cbn [dec_msg]. rewrite Hp.
  destruct (Hwf m (nth_error_In _ _ Hm)) as [Hnd Hf].
  pose proof (gen_msg_decode_ok s progs F' (dec_msg F' progs (S F')) (ref_decode g s) m (p_dec p) (length data) Hg Hnd
                (fun f H => proj1 (Hf f H)) (fun f H => proj2 (Hf f H)) (dec_msg_sticky s progs F' Hgen Hwf F') ltac:(unfold F'; lia)) as Hmain.
  assert (Hfield : forall slot f op, In (slot, f) (number_from 0 (mfields m)) ->
            gen_field_decode s (oneof_siblings m f slot) slot f = GOk op ->
            (forall tok t, t_num tok = fnum f -> apply_token s (ref_decode g s) m tok t = hfield s (ref_decode g s) m slot f tok t) ->
            reader_ok (apply_token s (ref_decode g s) m) (length data) (op_reader progs (S F') (dec_msg F' progs (S F')) op)).
  { intros slot f op Hin Hgf Hh. destruct (Hsimple f (number_from_In _ _ _ Hin)) as [Hc [[k Hk] Hl]].
    apply (scalar_like_ok s progs F' (dec_msg F' progs (S F')) (ref_decode g s) m _ (length data) k slot f op Hc Hk Hl Hgf Hh). }
  specialize (Hmain Hfield data {| pf := 0; pw := 0; buf := []; err := None |} t0 Hb (le_n _) eq_refl).
  unfold push_state in Hmain. cbn [err] in Hmain.
  destruct (Dec.loop (S F') (dec_body progs (S F') (dec_msg F' progs (S F')) (p_dec p))
              (next_field 0 {| pf := 0; pw := 0; buf := data; err := None |}) t0) as [st' t'].
  cbn [ref_decode fst snd]. rewrite Hm. unfold fold_opt in Hmain.
  destruct (tokens data) as [ts|]; exact Hmain.
Qed.

(* ---------------------------------------------------------------- repeated fields *)
Lemma set_nth_set_nth {A} (l : list A) i x y : set_nth (set_nth l i x) i y = set_nth l i y.
Proof. revert i; induction l as [|a l IH]; intros [|i]; cbn; auto. f_equal. apply IH. Qed.
Lemma nth_set_nth_in {A} (l : list A) i x d : (i < length l)%nat -> nth i (set_nth l i x) d = x.
Proof. revert i; induction l as [|a l IH]; intros [|i] H; cbn in *; try lia; auto. apply IH. lia. Qed.
Lemma set_nth_out {A} (l : list A) i x : (length l <= i)%nat -> set_nth l i x = l.
Proof. revert i; induction l as [|a l IH]; intros [|i] H; cbn in *; try lia; auto. f_equal. apply IH. lia. Qed.

(* updating a slot through a projection: reading the slot back after a write, or not finding it at all *)
Lemma set_nth_upd {A} (proj : val -> A) (inj : A -> val) (g : A -> A) fs slot a :
  (forall x, proj (inj x) = x) ->
  set_nth (set_nth fs slot (inj a)) slot (inj (g (proj (nth slot (set_nth fs slot (inj a)) (VInt 0))))) = set_nth fs slot (inj (g a)).
Proof.
  intros Hpi. destruct (Nat.lt_ge_cases slot (length fs)) as [Hin|Hout].
  - rewrite nth_set_nth_in by exact Hin. rewrite Hpi. apply set_nth_set_nth.
  - rewrite (set_nth_out fs slot (inj a)) by exact Hout. rewrite (set_nth_out fs slot (inj (g a))) by exact Hout. apply set_nth_out. exact Hout.
Qed.

(* packed payloads: the element loop of Repeated<K> and the reference unpacker agree *)
Lemma parse_value_scalar_pos num wt rest p k : parse_value num wt rest = Some (p, k) -> wt = 0 \/ wt = 1 \/ wt = 5 -> bytes_ok rest -> (1 <= k)%nat.
Proof.
  intros E Hw Hb. destruct Hw as [-> | [-> | ->]]; cbn [parse_value] in E.
  - pose proof (consume_varint_parse rest Hb) as H. destruct (spec_parse_varint rest) as [[v kk]|]; [|discriminate]. inversion E; subst. lia.
  - destruct (has_len_z rest 8); inversion E; lia.
  - destruct (has_len_z rest 4); inversion E; lia.
Qed.

Lemma unpack_step f k b : is_scalar_wire k = true -> b <> [] ->
  unpack (S f) k b =
  match parse_value 0 (wire_of k) b with
  | Some (p, n) =>
      match tok_scalar k {| t_num := 0; t_wt := wire_of k; t_pay := p; t_raw := firstn n b |} with
      | Some x => match unpack f k (skipn n b) with Some l => Some (x :: l) | None => None end
      | None => None
      end
  | None => None
  end.
Proof.
  intros Hs Hne. destruct b as [|y l]; [congruence|]. cbn [unpack].
  assert (Hw : wire_of k = 0 \/ wire_of k = 5 \/ wire_of k = 1) by (destruct k; cbn in *; auto; discriminate).
  unfold tok_scalar. cbn [t_pay t_wt].
  destruct Hw as [Hw|[Hw|Hw]]; rewrite Hw; cbn [parse_value].
  - destruct (spec_parse_varint (y :: l)) as [[v n]|]; reflexivity.
  - destruct (has_len_z (y :: l) 4); reflexivity.
  - destruct (has_len_z (y :: l) 8); reflexivity.
Qed.

Lemma dec_packed_unpack k : is_scalar_wire k = true -> forall fuel b acc, bytes_ok b -> (length b < fuel)%nat ->
  match unpack fuel k b with
  | Some xs => dec_packed fuel k b acc = (acc ++ xs, true)
  | None => snd (dec_packed fuel k b acc) = false
  end.
Proof.
  intros Hs. induction fuel as [|fuel IH]; intros b acc Hb Hl; [lia|].
  destruct b as [|y l]; [cbn; rewrite app_nil_r; reflexivity|].
  rewrite unpack_step by (auto; discriminate). cbn [dec_packed].
  pose proof (dec_payload_parse k 0 (y :: l) Hb) as Hd.
  destruct (parse_value 0 (wire_of k) (y :: l)) as [[p n]|] eqn:Ep.
  - destruct Hd as [x [Ht Ed]]. rewrite Ht, Ed. replace (Z.of_nat n <? 0) with false by (symmetry; apply Z.ltb_ge; lia).
    rewrite Nat2Z.id.
    assert (Hn : (1 <= n)%nat).
    { apply (parse_value_scalar_pos 0 (wire_of k) (y :: l) p n Ep); [destruct k; cbn in *; auto; discriminate|exact Hb]. }
    specialize (IH (skipn n (y :: l)) (acc ++ [x]) (bytes_ok_skipn _ _ Hb) ltac:(rewrite skipn_length; cbn [length] in *; lia)).
    destruct (unpack fuel k (skipn n (y :: l))) as [xs|].
    + rewrite IH. rewrite <- app_assoc. reflexivity.
    + exact IH.
  - destruct (dec_payload k (y :: l)) as [x xn]. cbn [snd] in Hd. replace (xn <? 0) with true by (symmetry; apply Z.ltb_lt; lia). reflexivity.
Qed.

Lemma consume_bytes_parse num rest : bytes_ok rest ->
  match parse_value num 2 rest with
  | Some (p, kk) => exists b, p = PBytes b /\ consume_bytes rest = (b, Z.of_nat kk) /\ bytes_ok b /\ (length b <= length rest)%nat
  | None => snd (consume_bytes rest) < 0
  end.
Proof.
  intros Hb. pose proof (dec_payload_parse KBytes num rest Hb) as H. cbn [wire_of BytesType] in H. change BytesType with 2 in H.
  unfold dec_payload in H. cbn [wire_of] in H. change BytesType with 2 in H. cbn iota in H.
  destruct (parse_value num 2 rest) as [[p kk]|] eqn:Ep.
  - destruct H as [x [Ht Ed]]. pose proof (parse_value_wire _ _ _ _ _ Ep) as Hw.
    destruct p; try lia. exists b. split; [reflexivity|].
    destruct (consume_bytes rest) as [b' n] eqn:Ec. unfold tok_scalar in Ht. cbn in Ht. injection Ht as <-. injection Ed as -> ->.
    split; [reflexivity|].
    cbn [parse_value] in Ep. destruct (spec_parse_varint rest) as [[len k0]|]; [|discriminate].
    destruct (negb (has_len_z (skipn k0 rest) len)); [discriminate|]. injection Ep as <- <-.
    split; [apply bytes_ok_firstn, bytes_ok_skipn, Hb|]. rewrite firstn_length, skipn_length. lia.
  - destruct (consume_bytes rest) as [b' n]. exact H.
Qed.

Definition rep_elems (k : kind) (tok : token) : option (list val) :=
  match tok_scalar k tok with
  | Some x => Some [x]
  | None => match t_pay tok with
            | PBytes b => if is_bytes_kind k then None else unpack (S (length b)) k b
            | _ => None
            end
  end.

Lemma hfield_rep_scalar s rrec m slot f k tok t :
  f_custom f = CNone -> (fty f = TScalar k \/ (fty f = TEnum /\ k = KInt32)) -> i_repeated (field_info s f) = true -> foneof f = None ->
  hfield s rrec m slot f tok t =
  match rep_elems k tok with
  | Some xs => Some (set_nth (fst t) slot (VList (as_list (nth slot (fst t) (VInt 0)) ++ xs)), snd t)
  | None => None
  end.
Proof.
  intros Hc Ht Hr Ho. unfold hfield, apply_known, rep_elems. rewrite Hc, Hr, (clear_siblings_none m f slot (fst t) Ho).
  destruct Ht as [Ht|[Ht ->]]; rewrite Ht; cbn [kind_of_ftype]; destruct (tok_scalar _ tok); try reflexivity;
    destruct (t_pay tok); try reflexivity; try (destruct (is_bytes_kind k); [reflexivity|]); cbn [is_bytes_kind];
    match goal with |- context[unpack ?a ?b ?c] => destruct (unpack a b c); reflexivity end.
Qed.

(* one iteration of Repeated<K> on the pending field *)
Lemma rep_iter k f fuel st vs : err st = None -> bytes_ok (buf st) -> pf st = f ->
  match parse_value f (pw st) (buf st) with
  | None => err (fst (dec_repeated (S fuel) k f st vs)) <> None /\ bytes_ok (buf (fst (dec_repeated (S fuel) k f st vs)))
  | Some (p, kk) =>
      match rep_elems k (tok_of st p kk) with
      | None => err (fst (dec_repeated (S fuel) k f st vs)) <> None /\ bytes_ok (buf (fst (dec_repeated (S fuel) k f st vs)))
      | Some xs => dec_repeated (S fuel) k f st vs = dec_repeated fuel k f (next_field (Z.of_nat kk) st) (vs ++ xs)
      end
  end.
Proof.
  intros He Hb Hpf. cbn [dec_repeated]. rewrite Hpf, Z.eqb_refl. cbn [negb]. unfold rep_elems, tok_of. rewrite Hpf.
  destruct (is_scalar_wire k && (pw st =? BytesType)) eqn:Epk.
  - (* packed *)
    apply andb_true_iff in Epk. destruct Epk as [Hs Hw]. apply Z.eqb_eq in Hw. change BytesType with 2 in Hw. rewrite Hw.
    pose proof (consume_bytes_parse f (buf st) Hb) as Hc.
    destruct (parse_value f 2 (buf st)) as [[p kk]|] eqn:Ep.
    + destruct Hc as [b [-> [Ec [Hbb Hlb]]]]. rewrite Ec. replace (Z.of_nat kk <? 0) with false by (symmetry; apply Z.ltb_ge; lia).
      assert (Hts : tok_scalar k {| t_num := f; t_wt := 2; t_pay := PBytes b; t_raw := firstn kk (buf st) |} = None).
      { unfold tok_scalar. cbn [t_pay t_wt]. destruct k; cbn in *; try reflexivity; discriminate. }
      rewrite Hts. cbn [t_pay]. unfold is_scalar_wire in Hs. apply negb_true_iff in Hs. rewrite Hs.
      pose proof (dec_packed_unpack k ltac:(unfold is_scalar_wire; rewrite Hs; reflexivity) (S (length b)) b vs Hbb ltac:(lia)) as Hp.
      destruct (unpack (S (length b)) k b) as [xs|].
      * rewrite Hp. reflexivity.
      * destruct (dec_packed (S (length b)) k b vs) as [vs' ok]. cbn [snd] in Hp. subst ok. cbn. split; [discriminate|exact Hb].
    + destruct (consume_bytes (buf st)) as [b n]. cbn [snd] in Hc. replace (n <? 0) with true by (symmetry; apply Z.ltb_lt; lia).
      cbn. split; [discriminate|exact Hb].
  - destruct (Z.eqb_spec (pw st) (wire_of k)) as [Ew|Ew].
    + rewrite Ew. pose proof (dec_payload_parse k f (buf st) Hb) as Hd.
      destruct (parse_value f (wire_of k) (buf st)) as [[p kk]|] eqn:Ep.
      * destruct Hd as [x [Ht Ed]]. rewrite Ht, Ed. replace (Z.of_nat kk <? 0) with false by (symmetry; apply Z.ltb_ge; lia). reflexivity.
      * destruct (dec_payload k (buf st)) as [x n]. cbn [snd] in Hd. replace (n <? 0) with true by (symmetry; apply Z.ltb_lt; lia).
        cbn. split; [discriminate|exact Hb].
    + destruct (parse_value f (pw st) (buf st)) as [[p kk]|] eqn:Ep; [|cbn; split; [discriminate|exact Hb]].
      rewrite (tok_scalar_wrong_wire k f (pw st) (buf st) p kk Ep Ew). cbn [t_pay].
      destruct p; try (cbn; split; [discriminate|exact Hb]).
      pose proof (parse_value_wire _ _ _ _ _ Ep) as Hw2. cbn in Hw2.
      destruct (is_bytes_kind k) eqn:Eb; [cbn; split; [discriminate|exact Hb]|].
      exfalso. unfold is_scalar_wire in Epk. rewrite Eb, Hw2 in Epk. cbn in Epk. discriminate.
Qed.

Lemma next_field_valid_err a st : pfv (next_field a st) = true -> err (next_field a st) = err st.
Proof.
  unfold next_field. destruct ((a <? 0) || negb (has_len_z (buf st) a)); [discriminate|].
  destruct (skipn (Z.to_nat a) (buf st)) as [|y l]; [discriminate|].
  destruct (consume_tag (y :: l)) as [[f w] n]. destruct (n <? 0); [discriminate|].
  destruct (negb (valid_number f)); [discriminate|]. reflexivity.
Qed.

Section RepScalar.
Variable h : token -> msgv -> option msgv.
Variables (k : kind) (f : Z) (slot : nat).
Hypothesis Hf : valid_number f = true.
Hypothesis Hh : forall tok t, t_num tok = f -> h tok t =
  match rep_elems k tok with
  | Some xs => Some (set_nth (fst t) slot (VList (as_list (nth slot (fst t) (VInt 0)) ++ xs)), snd t)
  | None => None
  end.

Definition rep_inv (fs tc vs : list val) : Prop :=
  forall xs, set_nth tc slot (VList (as_list (nth slot tc (VInt 0)) ++ xs)) = set_nth fs slot (VList (vs ++ xs)).

Lemma rep_inv_next fs vs : rep_inv fs (set_nth fs slot (VList vs)) vs.
Proof. intros xs. apply (set_nth_upd as_list VList (fun l => l ++ xs) fs slot vs). reflexivity. Qed.

Lemma rep_loop fs un : forall fuel st vs tc, rep_inv fs tc vs -> err st = None -> bytes_ok (buf st) -> pf st = f ->
  let '(st', l) := dec_repeated (S fuel) k f st vs in step_ok h st (tc, un) st' (set_nth fs slot (VList l), un).
Proof.
  induction fuel as [|fuel IH]; intros st vs tc Hinv He Hb Hpf.
  - pose proof (rep_iter k f 0 st vs He Hb Hpf) as Hi.
    destruct (dec_repeated 1 k f st vs) as [st' l] eqn:Ed. apply one_token_step; [exact He|exact Hb|]. rewrite Hpf.
    destruct (parse_value f (pw st) (buf st)) as [[p kk]|]; [|exact Hi].
    rewrite Hh by (cbn; exact Hpf). destruct (rep_elems k (tok_of st p kk)) as [xs|]; [|exact Hi].
    cbn [dec_repeated fst snd] in Hi. injection Hi as -> ->. cbn [fst snd]. split; [reflexivity|]. rewrite Hinv. reflexivity.
  - pose proof (rep_iter k f (S fuel) st vs He Hb Hpf) as Hi.
    destruct (parse_value f (pw st) (buf st)) as [[p kk]|] eqn:Ep.
    + destruct (rep_elems k (tok_of st p kk)) as [xs|] eqn:Ee.
      * rewrite Hi. set (st1 := next_field (Z.of_nat kk) st). set (vs1 := vs ++ xs).
        assert (S1 : step_ok h st (tc, un) st1 (set_nth fs slot (VList vs1), un)).
        { apply one_token_step; [exact He|exact Hb|]. rewrite Hpf, Ep. rewrite Hh by (cbn; exact Hpf). rewrite Ee.
          cbn [fst snd]. split; [reflexivity|]. rewrite Hinv. reflexivity. }
        destruct (Z.eqb_spec (pf st1) f) as [E1|E1].
        -- assert (Hv1 : pfv st1 = true) by (unfold pfv; rewrite E1; exact Hf).
           assert (He1 : err st1 = None) by (unfold st1 in *; rewrite next_field_valid_err by exact Hv1; exact He).
           destruct S1 as [Hb1 S1'].
           specialize (IH st1 vs1 (set_nth fs slot (VList vs1)) (rep_inv_next fs vs1) He1 Hb1 E1).
           destruct (dec_repeated (S fuel) k f st1 vs1) as [st2 l2].
           apply (step_ok_trans h st (tc, un) st1 (set_nth fs slot (VList vs1), un) st2 (set_nth fs slot (VList l2), un) (conj Hb1 S1')).
           ++ destruct IH as [Hb2 _]. exact Hb2.
           ++ intros Hc. congruence.
           ++ intros _ _. right. exact IH.
           ++ intros _ Hc. congruence.
        -- cbn [dec_repeated]. replace (f =? pf st1) with false by (symmetry; apply Z.eqb_neq; congruence). cbn [negb]. exact S1.
      * destruct (dec_repeated (S (S fuel)) k f st vs) as [st' l]. apply one_token_step; [exact He|exact Hb|]. rewrite Hpf, Ep.
        rewrite Hh by (cbn; exact Hpf). rewrite Ee. exact Hi.
    + destruct (dec_repeated (S (S fuel)) k f st vs) as [st' l]. apply one_token_step; [exact He|exact Hb|]. rewrite Hpf, Ep. exact Hi.
Qed.
End RepScalar.

Lemma info_repeated s f : flabel f = LRepeated -> (fty f = TEnum \/ exists k, fty f = TScalar k) -> i_repeated (field_info s f) = true.
Proof. intros Hl Ht. unfold field_info. rewrite Hl. destruct Ht as [Ht|[k Ht]]; rewrite Ht; try destruct (is_bytes_kind k); reflexivity. Qed.

Section Fields2.
Variables (s : schema) (progs : list prog) (F' : nat).
Let F := S F'.
Variable rec : nat -> @body msgv.
Variable rrec : nat -> bytes -> msgv -> option msgv.
Variable m : mdesc.
Variable h : token -> msgv -> option msgv.
Variable B : nat.

(* repeated scalar and enum fields: packed and unpacked occurrences, in any mixture *)
Lemma rep_scalar_ok k slot f op :
  f_custom f = CNone -> (fty f = TScalar k \/ (fty f = TEnum /\ k = KInt32)) -> flabel f = LRepeated -> foneof f = None ->
  valid_number (fnum f) = true ->
  gen_field_decode s (oneof_siblings m f slot) slot f = GOk op ->
  (forall tok t, t_num tok = fnum f -> h tok t = hfield s rrec m slot f tok t) ->
  reader_ok h B (op_reader progs F rec op).
Proof.
  intros Hc Ht Hl Hno Hv Hg Hh.
  assert (Hrep : i_repeated (field_info s f) = true).
  { apply info_repeated; [exact Hl|]. destruct Ht as [Ht|[Ht _]]; [right; exists k; exact Ht|left; exact Ht]. }
  assert (Hone : i_oneof (field_info s f) = false) by (rewrite info_oneof, Hno; reflexivity).
  assert (Hhs : forall tok t, t_num tok = fnum f -> h tok t =
            match rep_elems k tok with
            | Some xs => Some (set_nth (fst t) slot (VList (as_list (nth slot (fst t) (VInt 0)) ++ xs)), snd t)
            | None => None end).
  { intros tok t E. rewrite (Hh tok t E). apply hfield_rep_scalar; assumption. }
  assert (Hop : op = DScalar k true false slot (fnum f) \/ (k = KInt32 /\ op = DRepEnum slot (fnum f))).
  { unfold gen_field_decode in Hg. rewrite Hrep, Hone in Hg. destruct Ht as [Ht|[Ht ->]].
    - rewrite (info_scalar s f k Hc Ht) in Hg. destruct (i_pointer (field_info s f)); cbn in Hg; [discriminate Hg|]. injection Hg as <-. left; reflexivity.
    - rewrite (info_enum s f Hc Ht) in Hg. destruct (i_pointer (field_info s f)); [discriminate Hg|]. injection Hg as <-. right; auto. }
  intros st t HB He Hb _ Hm. cbn [op_reader rmatch rrun] in *.
  assert (G : pf st = fnum f -> let '(st1, t1) := (let '(st', l) := dec_repeated F k (fnum f) st (as_list (slot_get (fst t) slot)) in (st', set_slot t slot (VList l))) in
              step_ok h st t st1 t1).
  { intros Hpf. pose proof (rep_loop h k (fnum f) slot Hv Hhs (fst t) (snd t) F' st (as_list (slot_get (fst t) slot)) (fst t)
                   ltac:(intros xs; reflexivity) He Hb Hpf) as Hl'.
    fold F in Hl'. destruct (dec_repeated F k (fnum f) st (as_list (slot_get (fst t) slot))) as [st' l].
    destruct t as [fs un]. exact Hl'. }
  destruct Hop as [->|[-> ->]]; cbn [op_match] in Hm; unfold dec_op; cbn [op_match]; rewrite Hm; cbn [dec_op_run]; apply Z.eqb_eq in Hm.
  - apply G, Hm.
  - unfold dec_repeated_enum. apply G, Hm.
Qed.
End Fields2.

(* ---------------------------------------------------------------- message-typed fields *)
(* Loop over a callback that unwraps the target, runs the Decode body and wraps the result again *)
Lemma loop_wrap {V W} (g : @body W) (unwrap : V -> W) (wrap : W -> V) :
  (forall w, unwrap (wrap w) = w) ->
  let fn : @body V := fun c v => let '(c', w') := g c (unwrap v) in (c', wrap w') in
  forall fuel c v, Dec.loop (S fuel) fn c v = let '(c', w') := Dec.loop (S fuel) g c (unwrap v) in (c', wrap w').
Proof.
  intros Huw fn.
  assert (G : forall fuel c w, Dec.loop fuel fn c (wrap w) = let '(c', w') := Dec.loop fuel g c w in (c', wrap w')).
  { induction fuel as [|fuel IH]; intros c w; [reflexivity|]. cbn [Dec.loop]. unfold fn at 1. rewrite Huw.
    destruct (g c w) as [c1 w1]. destruct (negb (valid_number (pf c1))); [reflexivity|].
    destruct (same_len (buf c1) (buf c)); apply IH. }
  intros fuel c v. cbn [Dec.loop]. unfold fn at 1. destruct (g c (unwrap v)) as [c1 w1].
  destruct (negb (valid_number (pf c1))); [reflexivity|]. destruct (same_len (buf c1) (buf c)); apply G.
Qed.

Lemma pop_state_same st inner : err inner = err st -> pop_state st inner = st.
Proof. intros E. unfold pop_state. rewrite E. destruct st; reflexivity. Qed.

Section MsgStep.
Context {T V : Type}.
Variable h : token -> T -> option T.
Variables (F : nat) (B : nat).

(* Message / PresentMessage on the pending field, given what the inner Loop computes on a payload *)
Lemma dec_message_step st t field (fn : @body V) (v0 : V) (res : bytes -> option V) (put : V -> T) :
  err st = None -> bytes_ok (buf st) -> pf st = field -> (blen st <= B)%nat ->
  (forall b, bytes_ok b -> (length b <= B)%nat ->
     let '(st', v') := Dec.loop F fn (push_state b st) v0 in
     match res b with Some v'' => err st' = None /\ v' = v'' | None => err st' <> None end) ->
  (forall tok, t_num tok = field -> h tok t =
     match t_pay tok with PBytes b => match res b with Some v => Some (put v) | None => None end | _ => None end) ->
  let '(st1, v1) := dec_message F field fn st v0 in step_ok h st t st1 (put v1).
Proof.
  intros He Hb Hpf HBl Hinner Hh. unfold dec_message. rewrite Hpf, Z.eqb_refl. cbn [negb].
  destruct (Z.eqb_spec (pw st) BytesType) as [Ew|Ew]; cbn [negb].
  - change BytesType with 2 in Ew. pose proof (consume_bytes_parse field (buf st) Hb) as Hc.
    destruct (parse_value field 2 (buf st)) as [[p kk]|] eqn:Ep.
    + destruct Hc as [b [-> [Ec [Hbb Hlb]]]]. rewrite Ec. replace (Z.of_nat kk <? 0) with false by (symmetry; apply Z.ltb_ge; lia).
      specialize (Hinner b Hbb ltac:(unfold blen in HBl; lia)).
      destruct (Dec.loop F fn (push_state b st) v0) as [inner' v'].
      apply one_token_step; [exact He|exact Hb|]. rewrite Hpf, Ew, Ep. rewrite Hh by (cbn; exact Hpf). cbn [tok_of t_pay].
      destruct (res b) as [v''|].
      * destruct Hinner as [Hei ->]. rewrite pop_state_same by congruence. split; reflexivity.
      * split; [apply next_field_err_sticky; cbn [pop_state err]; exact Hinner|apply bytes_ok_next_field; cbn [pop_state buf]; exact Hb].
    + destruct (consume_bytes (buf st)) as [b n]. cbn [snd] in Hc. replace (n <? 0) with true by (symmetry; apply Z.ltb_lt; lia).
      apply one_token_step; [exact He|exact Hb|]. rewrite Hpf, Ew, Ep. cbn. split; [discriminate|exact Hb].
  - apply one_token_step; [exact He|exact Hb|].
    destruct (parse_value (pf st) (pw st) (buf st)) as [[p kk]|] eqn:Ep; [|cbn; split; [discriminate|exact Hb]].
    rewrite Hh by (cbn; exact Hpf). cbn [tok_of t_pay]. pose proof (parse_value_wire _ _ _ _ _ Ep) as Hw.
    destruct p; try (cbn; split; [discriminate|exact Hb]). exfalso. apply Ew. exact Hw.
Qed.
End MsgStep.

Lemma info_msg s f idx : f_custom f = CNone -> fty f = TMsg idx -> i_kind (field_info s f) = GMessage idx.
Proof. intros Hc Ht. unfold field_info. rewrite Hc, Ht. reflexivity. Qed.

Lemma nth_set_nth_other {A} (l : list A) i j x d : i <> j -> nth i (set_nth l j x) d = nth i l d.
Proof. revert i j; induction l as [|a l IH]; intros [|i] [|j] H; cbn; auto; try congruence. Qed.

Lemma clear_siblings_nth m f slot fs : nth slot (clear_siblings m f slot fs) (VInt 0) = nth slot fs (VInt 0).
Proof.
  unfold clear_siblings.
  assert (Hs : forall sib, In sib (oneof_siblings m f slot) -> sib <> slot).
  { unfold oneof_siblings. destruct (foneof f); [|intros ? []]. intros sib H. apply in_map_iff in H. destruct H as [p [<- Hp]].
    apply filter_In in Hp. destruct Hp as [_ Hp]. apply andb_true_iff in Hp. destruct Hp as [Hp _]. apply negb_true_iff in Hp.
    apply Nat.eqb_neq in Hp. exact Hp. }
  revert fs. induction (oneof_siblings m f slot) as [|sib l IH]; intros fs; [reflexivity|]. cbn [fold_left].
  rewrite IH by (intros x Hx; apply Hs; right; exact Hx). apply nth_set_nth_other. intros E. apply (Hs sib); [left; reflexivity|congruence].
Qed.

Lemma zero_agree s progs idx : gen_all s = GOk progs -> zero_msgv progs idx = zero_of s idx.
Proof.
  intros Hgen. unfold zero_msgv, zero_of. destruct (nth_error progs idx) as [p|] eqn:Ep.
  - destruct (gen_all_nth s progs idx p Hgen Ep) as [m [Hm [_ Hz]]]. rewrite Hm, Hz. reflexivity.
  - destruct (nth_error s idx) as [m|] eqn:Em; [|reflexivity]. destruct (gen_all_nth_s s progs idx m Hgen Em) as [p Hp]. congruence.
Qed.

Lemma hfield_msg s rrec m slot f idx tok t :
  f_custom f = CNone -> fty f = TMsg idx -> i_repeated (field_info s f) = false ->
  hfield s rrec m slot f tok t =
  match t_pay tok with
  | PBytes b =>
      if i_pointer (field_info s f) then
        match rrec idx b (match nth slot (fst t) (VInt 0) with VMsg (Some x) => x | _ => zero_of s idx end) with
        | Some x => Some (set_nth (clear_siblings m f slot (fst t)) slot (VMsg (Some x)), snd t) | None => None end
      else if i_oneof (field_info s f) then
        match rrec idx b (match nth slot (fst t) (VInt 0) with VOpt (Some (VEmb fs1 u1)) => (fs1, u1) | _ => zero_of s idx end) with
        | Some x => Some (set_nth (clear_siblings m f slot (fst t)) slot (VOpt (Some (VEmb (fst x) (snd x)))), snd t) | None => None end
      else
        match rrec idx b (match nth slot (fst t) (VInt 0) with VEmb fs1 u1 => (fs1, u1) | _ => zero_of s idx end) with
        | Some x => Some (set_nth (clear_siblings m f slot (fst t)) slot (VEmb (fst x) (snd x)), snd t) | None => None end
  | _ => None
  end.
Proof.
  intros Hc Ht Hr. unfold hfield, apply_known. rewrite Hc, Ht, Hr.
  destruct (t_pay tok); try reflexivity. destruct (i_pointer (field_info s f)).
  - destruct (rrec idx b _); reflexivity.
  - destruct (i_oneof (field_info s f)); destruct (rrec idx b _); reflexivity.
Qed.

Section MsgFields.
Variables (s : schema) (progs : list prog) (F' : nat).
Let F := S F'.
Variable rec : nat -> @body msgv.
Variable rrec : nat -> bytes -> msgv -> option msgv.
Variable m : mdesc.
Variable h : token -> msgv -> option msgv.
Variable B : nat.
Hypothesis Hgen : gen_all s = GOk progs.
Variable good : nat -> bool.       (* the message types whose Decode is known to be the reference's *)
Hypothesis Hrec : forall idx b st0 t, good idx = true -> bytes_ok b -> (length b <= B)%nat -> err st0 = None ->
  let '(st', t') := Dec.loop F (rec idx) (push_state b st0) t in
  match rrec idx b t with Some t'' => err st' = None /\ t' = t'' | None => err st' <> None end.

(* singular message fields: pointer (merge into the existing message or a fresh one), always-present, oneof member *)
Lemma msg_field_ok idx slot f op : good idx = true ->
  f_custom f = CNone -> fty f = TMsg idx -> flabel f <> LRepeated ->
  gen_field_decode s (oneof_siblings m f slot) slot f = GOk op ->
  (forall tok t, t_num tok = fnum f -> h tok t = hfield s rrec m slot f tok t) ->
  reader_ok h B (op_reader progs F rec op).
Proof.
  intros Hgood Hc Ht Hl Hg Hh.
  pose proof (info_not_repeated s f Hl) as Hrep. pose proof (info_oneof s f) as Hone.
  assert (Hhs : forall tok t, t_num tok = fnum f -> h tok t = _) by (intros tok t E; rewrite (Hh tok t E); apply (hfield_msg s rrec m slot f idx tok t Hc Ht Hrep)).
  clear Hh. unfold gen_field_decode in Hg. rewrite (info_msg s f idx Hc Ht), Hrep, Hone in Hg.
  intros st t HB He Hb _ Hm. cbn [op_reader rmatch rrun] in *.
  (* the two callbacks *)
  assert (GP : forall (t0 : msgv), pf st = fnum f -> i_pointer (field_info s f) = true ->
             nth slot (fst t0) (VInt 0) = nth slot (fst t) (VInt 0) -> snd t0 = snd t ->
             fst t0 = clear_siblings m f slot (fst t) ->
             let '(st1, t1) := (let '(st', v') := dec_message F (fnum f)
                   (fun c (v : val) => let m0 := match v with VMsg (Some m0) => m0 | _ => zero_msgv progs idx end in
                                       let '(c', m') := rec idx c m0 in (c', VMsg (Some m')))
                   st (slot_get (fst t0) slot) in (st', set_slot t0 slot v')) in step_ok h st t st1 t1).
  { intros t0 Hpf Hp Hn Hsn Hfs.
    pose proof (dec_message_step h F B st t (fnum f)
                  (fun c (v : val) => let m0 := match v with VMsg (Some m0) => m0 | _ => zero_msgv progs idx end in
                                      let '(c', m') := rec idx c m0 in (c', VMsg (Some m')))
                  (slot_get (fst t0) slot)
                  (fun b => match rrec idx b (match slot_get (fst t0) slot with VMsg (Some x) => x | _ => zero_msgv progs idx end) with
                            | Some x => Some (VMsg (Some x)) | None => None end)
                  (fun v => set_slot t0 slot v) He Hb Hpf HB) as Hs.
    destruct (dec_message F (fnum f) _ st (slot_get (fst t0) slot)) as [st1 v1]. apply Hs.
    - intros b Hbb Hlb. unfold F.
      rewrite (loop_wrap (rec idx) (fun v : val => match v with VMsg (Some m0) => m0 | _ => zero_msgv progs idx end) (fun w => VMsg (Some w)) ltac:(reflexivity) F').
      specialize (Hrec idx b st (match slot_get (fst t0) slot with VMsg (Some x) => x | _ => zero_msgv progs idx end) Hgood Hbb Hlb He).
      fold F. destruct (Dec.loop F (rec idx) (push_state b st) _) as [st' w']. destruct (rrec idx b _) as [x|]; [destruct Hrec as [E1 ->]; auto|exact Hrec].
    - intros tok E. rewrite (Hhs tok t E). rewrite Hp. unfold slot_get. rewrite Hn, (zero_agree s progs idx Hgen).
      destruct (t_pay tok); try reflexivity. destruct (rrec idx b _); [|reflexivity]. unfold set_slot. rewrite Hfs, Hsn. reflexivity. }
  assert (GE : pf st = fnum f -> i_pointer (field_info s f) = false -> foneof f = None ->
             let '(st1, t1) := (let '(st', v') := dec_message F (fnum f)
                   (fun c (v : val) => let m0 := match v with VEmb fs u => (fs, u) | _ => zero_msgv progs idx end in
                                       let '(c', m') := rec idx c m0 in (c', VEmb (fst m') (snd m')))
                   st (slot_get (fst t) slot) in (st', set_slot t slot v')) in step_ok h st t st1 t1).
  { intros Hpf Hp Hno.
    pose proof (dec_message_step h F B st t (fnum f)
                  (fun c (v : val) => let m0 := match v with VEmb fs u => (fs, u) | _ => zero_msgv progs idx end in
                                      let '(c', m') := rec idx c m0 in (c', VEmb (fst m') (snd m')))
                  (slot_get (fst t) slot)
                  (fun b => match rrec idx b (match slot_get (fst t) slot with VEmb fs u => (fs, u) | _ => zero_msgv progs idx end) with
                            | Some x => Some (VEmb (fst x) (snd x)) | None => None end)
                  (fun v => set_slot t slot v) He Hb Hpf HB) as Hs.
    destruct (dec_message F (fnum f) _ st (slot_get (fst t) slot)) as [st1 v1]. apply Hs.
    - intros b Hbb Hlb. unfold F.
      rewrite (loop_wrap (rec idx) (fun v : val => match v with VEmb fs u => (fs, u) | _ => zero_msgv progs idx end) (fun w => VEmb (fst w) (snd w))
                 ltac:(intros [a c]; reflexivity) F').
      specialize (Hrec idx b st (match slot_get (fst t) slot with VEmb fs u => (fs, u) | _ => zero_msgv progs idx end) Hgood Hbb Hlb He).
      fold F. destruct (Dec.loop F (rec idx) (push_state b st) _) as [st' w']. destruct (rrec idx b _) as [x|]; [destruct Hrec as [E1 ->]; auto|exact Hrec].
    - intros tok E. rewrite (Hhs tok t E). rewrite Hp, Hone, Hno. unfold slot_get. rewrite (zero_agree s progs idx Hgen), (clear_siblings_none m f slot (fst t) Hno).
      destruct (t_pay tok); try reflexivity. destruct (rrec idx b _); reflexivity. }
  (* by-value member of a oneof: the wrapper holds the message *)
  assert (GO : forall (t0 : msgv), pf st = fnum f -> i_pointer (field_info s f) = false -> foneof f <> None ->
             nth slot (fst t0) (VInt 0) = nth slot (fst t) (VInt 0) -> snd t0 = snd t ->
             fst t0 = clear_siblings m f slot (fst t) ->
             let '(st1, t1) := (let '(st', v') := dec_message F (fnum f)
                   (fun c (v : val) => let m0 := match v with VOpt (Some (VEmb fs1 u1)) => (fs1, u1) | _ => zero_msgv progs idx end in
                                       let '(c', m') := rec idx c m0 in (c', VOpt (Some (VEmb (fst m') (snd m')))))
                   st (slot_get (fst t0) slot) in (st', set_slot t0 slot v')) in step_ok h st t st1 t1).
  { intros t0 Hpf Hp Hyes Hn Hsn Hfs.
    pose proof (dec_message_step h F B st t (fnum f)
                  (fun c (v : val) => let m0 := match v with VOpt (Some (VEmb fs1 u1)) => (fs1, u1) | _ => zero_msgv progs idx end in
                                      let '(c', m') := rec idx c m0 in (c', VOpt (Some (VEmb (fst m') (snd m')))))
                  (slot_get (fst t0) slot)
                  (fun b => match rrec idx b (match slot_get (fst t0) slot with VOpt (Some (VEmb fs1 u1)) => (fs1, u1) | _ => zero_msgv progs idx end) with
                            | Some x => Some (VOpt (Some (VEmb (fst x) (snd x)))) | None => None end)
                  (fun v => set_slot t0 slot v) He Hb Hpf HB) as Hs.
    destruct (dec_message F (fnum f) _ st (slot_get (fst t0) slot)) as [st1 v1]. apply Hs.
    - intros b Hbb Hlb. unfold F.
      rewrite (loop_wrap (rec idx) (fun v : val => match v with VOpt (Some (VEmb fs1 u1)) => (fs1, u1) | _ => zero_msgv progs idx end)
                 (fun w => VOpt (Some (VEmb (fst w) (snd w)))) ltac:(intros [a c]; reflexivity) F').
      specialize (Hrec idx b st (match slot_get (fst t0) slot with VOpt (Some (VEmb fs1 u1)) => (fs1, u1) | _ => zero_msgv progs idx end) Hgood Hbb Hlb He).
      fold F. destruct (Dec.loop F (rec idx) (push_state b st) _) as [st' w']. destruct (rrec idx b _) as [x|]; [destruct Hrec as [E1 ->]; auto|exact Hrec].
    - intros tok E. rewrite (Hhs tok t E). rewrite Hp, Hone. destruct (foneof f) as [o|]; [|congruence]. unfold slot_get. rewrite Hn, (zero_agree s progs idx Hgen).
      destruct (t_pay tok); try reflexivity. destruct (rrec idx b _); [|reflexivity]. unfold set_slot. rewrite Hfs, Hsn. reflexivity. }
  destruct (foneof f) as [o|] eqn:Eo.
  - (* oneof member: pointer, or by value (always-present message type) *)
    destruct (i_pointer (field_info s f)) eqn:Ep; injection Hg as <-;
      cbn [op_match] in Hm; unfold dec_op; cbn [op_match]; rewrite Hm; cbn [dec_op_run]; rewrite Hm; apply Z.eqb_eq in Hm;
      rewrite clear_siblings_model.
    + apply (GP (clear_siblings m f slot (fst t), snd t) Hm eq_refl); cbn [fst snd]; [apply clear_siblings_nth|reflexivity|reflexivity].
    + apply (GO (clear_siblings m f slot (fst t), snd t) Hm eq_refl ltac:(discriminate)); cbn [fst snd]; [apply clear_siblings_nth|reflexivity|reflexivity].
  - destruct (i_pointer (field_info s f)) eqn:Ep; injection Hg as <-;
      cbn [op_match] in Hm; unfold dec_op; cbn [op_match]; rewrite Hm; cbn [dec_op_run]; apply Z.eqb_eq in Hm.
    + destruct t as [fs un]. apply (GP (fs, un) Hm eq_refl); cbn [fst snd]; try reflexivity.
      symmetry. apply clear_siblings_none. exact Eo.
    + apply (GE Hm eq_refl eq_refl).
Qed.
End MsgFields.

(* ---------------------------------------------------------------- greedy "for pending == num" loops that update one slot *)
Section Greedy.
Context {A : Type}.
Variable h : token -> msgv -> option msgv.
Variables (f : Z) (slot : nat) (B : nat).
Variables (proj : val -> A) (inj : A -> val).
Hypothesis Hpi : forall a, proj (inj a) = a.
Variable upd : token -> option (A -> A).          (* what one occurrence does to the slot's content *)
Variable R : nat -> dstate -> A -> dstate * A.
Hypothesis Hf : valid_number f = true.
Hypothesis Hh : forall tok t, t_num tok = f -> h tok t =
  match upd tok with
  | Some g => Some (set_nth (fst t) slot (inj (g (proj (nth slot (fst t) (VInt 0))))), snd t)
  | None => None
  end.
Hypothesis R0 : forall st a, R 0 st a = (st, a).
Hypothesis Rno : forall fuel st a, pf st <> f -> R fuel st a = (st, a).
Hypothesis Riter : forall fuel st a, err st = None -> bytes_ok (buf st) -> (blen st <= B)%nat -> pf st = f ->
  match parse_value f (pw st) (buf st) with
  | None => err (fst (R (S fuel) st a)) <> None /\ bytes_ok (buf (fst (R (S fuel) st a)))
  | Some (p, kk) =>
      match upd (tok_of st p kk) with
      | None => err (fst (R (S fuel) st a)) <> None /\ bytes_ok (buf (fst (R (S fuel) st a)))
      | Some g => R (S fuel) st a = R fuel (next_field (Z.of_nat kk) st) (g a)
      end
  end.

Definition gen_inv (fs tc : list val) (a : A) : Prop :=
  forall g : A -> A, set_nth tc slot (inj (g (proj (nth slot tc (VInt 0))))) = set_nth fs slot (inj (g a)).
Lemma gen_inv_next fs a : gen_inv fs (set_nth fs slot (inj a)) a.
Proof. intros g. apply (set_nth_upd proj inj g fs slot a Hpi). Qed.
Lemma gen_inv_start fs : gen_inv fs fs (proj (nth slot fs (VInt 0))).
Proof. intros g. reflexivity. Qed.

Lemma greedy_loop fs un : forall fuel st a tc, gen_inv fs tc a -> err st = None -> bytes_ok (buf st) -> (blen st <= B)%nat -> pf st = f ->
  let '(st', a') := R (S fuel) st a in step_ok h st (tc, un) st' (set_nth fs slot (inj a'), un).
Proof.
  induction fuel as [|fuel IH]; intros st a tc Hinv He Hb HBl Hpf.
  - pose proof (Riter 0 st a He Hb HBl Hpf) as Hi.
    destruct (R 1 st a) as [st' a'] eqn:Ed. apply one_token_step; [exact He|exact Hb|]. rewrite Hpf.
    destruct (parse_value f (pw st) (buf st)) as [[p kk]|]; [|exact Hi].
    rewrite Hh by (cbn; exact Hpf). destruct (upd (tok_of st p kk)) as [g|]; [|exact Hi].
    rewrite R0 in Hi. injection Hi as -> ->. cbn [fst snd]. split; [reflexivity|]. rewrite Hinv. reflexivity.
  - pose proof (Riter (S fuel) st a He Hb HBl Hpf) as Hi.
    destruct (parse_value f (pw st) (buf st)) as [[p kk]|] eqn:Ep.
    + destruct (upd (tok_of st p kk)) as [g|] eqn:Ee.
      * rewrite Hi. set (st1 := next_field (Z.of_nat kk) st). set (a1 := g a).
        assert (S1 : step_ok h st (tc, un) st1 (set_nth fs slot (inj a1), un)).
        { apply one_token_step; [exact He|exact Hb|]. rewrite Hpf, Ep. rewrite Hh by (cbn; exact Hpf). rewrite Ee.
          cbn [fst snd]. split; [reflexivity|]. rewrite Hinv. reflexivity. }
        destruct (Z.eqb_spec (pf st1) f) as [E1|E1].
        -- assert (Hv1 : pfv st1 = true) by (unfold pfv; rewrite E1; exact Hf).
           assert (He1 : err st1 = None) by (unfold st1 in *; rewrite next_field_valid_err by exact Hv1; exact He).
           assert (HB1 : (blen st1 <= B)%nat) by (pose proof (adv_weak _ _ (adv_next_field (Z.of_nat kk) st)); unfold st1; lia).
           destruct S1 as [Hb1 S1'].
           specialize (IH st1 a1 (set_nth fs slot (inj a1)) (gen_inv_next fs a1) He1 Hb1 HB1 E1).
           destruct (R (S fuel) st1 a1) as [st2 a2].
           apply (step_ok_trans h st (tc, un) st1 (set_nth fs slot (inj a1), un) st2 (set_nth fs slot (inj a2), un) (conj Hb1 S1')).
           ++ destruct IH as [Hb2 _]. exact Hb2.
           ++ intros Hc. congruence.
           ++ intros _ _. right. exact IH.
           ++ intros _ Hc. congruence.
        -- rewrite Rno by exact E1. exact S1.
      * destruct (R (S (S fuel)) st a) as [st' a']. apply one_token_step; [exact He|exact Hb|]. rewrite Hpf, Ep.
        rewrite Hh by (cbn; exact Hpf). rewrite Ee. exact Hi.
    + destruct (R (S (S fuel)) st a) as [st' a']. apply one_token_step; [exact He|exact Hb|]. rewrite Hpf, Ep. exact Hi.
Qed.
End Greedy.

Lemma repmsg_bytes_ok {T} f (fn : @body T) : forall fuel st l, bytes_ok (buf st) -> bytes_ok (buf (fst (dec_repeated_message fuel f fn st l))).
Proof.
  induction fuel as [|fuel IH]; intros st l Hb; [exact Hb|]. cbn [dec_repeated_message].
  destruct (negb (f =? pf st)); [exact Hb|]. destruct (negb (pw st =? BytesType)); [exact Hb|].
  destruct (consume_bytes (buf st)) as [msg n]. destruct (n <? 0); [exact Hb|].
  destruct (fn (push_state msg st) l) as [inner' l']. apply IH. apply bytes_ok_next_field. exact Hb.
Qed.

Definition rep_msg_elems (s : schema) (rrec : nat -> bytes -> msgv -> option msgv) (idx : nat) (ptr : bool) (tok : token) : option (list val -> list val) :=
  match t_pay tok with
  | PBytes b => match rrec idx b (zero_of s idx) with
                | Some x => Some (fun l => l ++ [if ptr then VMsg (Some x) else VEmb (fst x) (snd x)])
                | None => None
                end
  | _ => None
  end.

Lemma hfield_rep_msg s rrec m slot f idx tok t :
  f_custom f = CNone -> fty f = TMsg idx -> i_repeated (field_info s f) = true -> foneof f = None ->
  hfield s rrec m slot f tok t =
  match rep_msg_elems s rrec idx (i_pointer (field_info s f)) tok with
  | Some g => Some (set_nth (fst t) slot (VList (g (as_list (nth slot (fst t) (VInt 0))))), snd t)
  | None => None
  end.
Proof.
  intros Hc Ht Hr Ho. unfold hfield, apply_known, rep_msg_elems. rewrite Hc, Ht, Hr, (clear_siblings_none m f slot (fst t) Ho).
  destruct (t_pay tok); try reflexivity. destruct (rrec idx b (zero_of s idx)); reflexivity.
Qed.

Section RepMsgFields.
Variables (s : schema) (progs : list prog) (F' : nat).
Let F := S F'.
Variable rec : nat -> @body msgv.
Variable rrec : nat -> bytes -> msgv -> option msgv.
Variable m : mdesc.
Variable h : token -> msgv -> option msgv.
Variable B : nat.
Hypothesis Hgen : gen_all s = GOk progs.
Hypothesis rec_sticky : forall idx, sticky_fn (rec idx).
Variable good : nat -> bool.
Hypothesis Hrec : forall idx b st0 t, good idx = true -> bytes_ok b -> (length b <= B)%nat -> err st0 = None ->
  let '(st', t') := Dec.loop F (rec idx) (push_state b st0) t in
  match rrec idx b t with Some t'' => err st' = None /\ t' = t'' | None => err st' <> None end.

Lemma repmsg_iter idx f (ptr : bool) fuel st l : good idx = true -> valid_number f = true ->
  let fn : dstate -> list val -> dstate * list val :=
    fun c l0 => let '(c', m') := Dec.loop F (rec idx) c (zero_msgv progs idx) in
                (c', l0 ++ [if ptr then VMsg (Some m') else VEmb (fst m') (snd m')]) in
  err st = None -> bytes_ok (buf st) -> (blen st <= B)%nat -> pf st = f ->
  match parse_value f (pw st) (buf st) with
  | None => err (fst (dec_repeated_message (S fuel) f fn st l)) <> None /\ bytes_ok (buf (fst (dec_repeated_message (S fuel) f fn st l)))
  | Some (p, kk) =>
      match rep_msg_elems s rrec idx ptr (tok_of st p kk) with
      | None => err (fst (dec_repeated_message (S fuel) f fn st l)) <> None /\ bytes_ok (buf (fst (dec_repeated_message (S fuel) f fn st l)))
      | Some g => dec_repeated_message (S fuel) f fn st l = dec_repeated_message fuel f fn (next_field (Z.of_nat kk) st) (g l)
      end
  end.
Proof.
  intros Hgood Hf fn He Hb HBl Hpf.
  assert (Hfn : sticky_fn fn).
  { intros c l0 Hec. unfold fn. pose proof (loop_sticky (rec idx) (rec_sticky idx) F c (zero_msgv progs idx) Hec) as H.
    destruct (Dec.loop F (rec idx) c (zero_msgv progs idx)) as [c' m']. exact H. }
  cbn [dec_repeated_message]. rewrite Hpf, Z.eqb_refl. cbn [negb]. unfold rep_msg_elems, tok_of. cbn [t_pay].
  destruct (Z.eqb_spec (pw st) BytesType) as [Ew|Ew]; cbn [negb].
  - change BytesType with 2 in Ew. rewrite Ew. pose proof (consume_bytes_parse f (buf st) Hb) as Hc.
    destruct (parse_value f 2 (buf st)) as [[p kk]|] eqn:Ep.
    + destruct Hc as [b [-> [Ec [Hbb Hlb]]]]. rewrite Ec. replace (Z.of_nat kk <? 0) with false by (symmetry; apply Z.ltb_ge; lia).
      rewrite <- (zero_agree s progs idx Hgen).
      specialize (Hrec idx b st (zero_msgv progs idx) Hgood Hbb ltac:(unfold blen in HBl; lia) He).
      destruct (Dec.loop F (rec idx) (push_state b st) (zero_msgv progs idx)) as [c' m'] eqn:Eloop.
      assert (Efn : fn (push_state b st) l = (c', l ++ [if ptr then VMsg (Some m') else VEmb (fst m') (snd m')])) by (unfold fn; rewrite Eloop; reflexivity).
      rewrite Efn.
      destruct (rrec idx b (zero_msgv progs idx)) as [x|].
      * destruct Hrec as [Hec ->]. rewrite pop_state_same by congruence. reflexivity.
      * split.
        -- destruct (repmsg_facts f fn Hf fuel (next_field (Z.of_nat kk) (pop_state st c')) (l ++ [if ptr then VMsg (Some m') else VEmb (fst m') (snd m')])) as [_ [_ [I3 _]]].
           apply I3; [exact Hfn|]. apply next_field_err_sticky. cbn [pop_state err]. exact Hrec.
        -- apply repmsg_bytes_ok. apply bytes_ok_next_field. cbn [pop_state buf]. exact Hb.
    + destruct (consume_bytes (buf st)) as [b n]. cbn [snd] in Hc. replace (n <? 0) with true by (symmetry; apply Z.ltb_lt; lia).
      cbn. split; [discriminate|exact Hb].
  - destruct (parse_value f (pw st) (buf st)) as [[p kk]|] eqn:Ep; [|cbn; split; [discriminate|exact Hb]].
    pose proof (parse_value_wire _ _ _ _ _ Ep) as Hw. destruct p; try (cbn; split; [discriminate|exact Hb]). exfalso. apply Ew. exact Hw.
Qed.

(* repeated message fields (slices of pointers or of values) *)
Lemma rep_msg_field_ok idx slot f op : good idx = true ->
  f_custom f = CNone -> fty f = TMsg idx -> flabel f = LRepeated -> foneof f = None -> valid_number (fnum f) = true ->
  gen_field_decode s (oneof_siblings m f slot) slot f = GOk op ->
  (forall tok t, t_num tok = fnum f -> h tok t = hfield s rrec m slot f tok t) ->
  reader_ok h B (op_reader progs F rec op).
Proof.
  intros Hgood Hc Ht Hl Hno Hv Hg Hh.
  assert (Hrep : i_repeated (field_info s f) = true) by (unfold field_info; rewrite Hl, Ht; reflexivity).
  assert (Hone : i_oneof (field_info s f) = false) by (rewrite info_oneof, Hno; reflexivity).
  assert (Hhs : forall tok t, t_num tok = fnum f -> h tok t = _) by (intros tok t E; rewrite (Hh tok t E); apply (hfield_rep_msg s rrec m slot f idx tok t Hc Ht Hrep Hno)).
  clear Hh. unfold gen_field_decode in Hg. rewrite (info_msg s f idx Hc Ht), Hrep, Hone in Hg.
  intros st t HB He Hb _ Hm. cbn [op_reader rmatch rrun] in *.
  assert (G : forall ptr, ptr = i_pointer (field_info s f) -> pf st = fnum f ->
            let fn : dstate -> list val -> dstate * list val :=
              fun c l0 => let '(c', m') := Dec.loop F (rec idx) c (zero_msgv progs idx) in
                          (c', l0 ++ [if ptr then VMsg (Some m') else VEmb (fst m') (snd m')]) in
            let '(st1, t1) := (let '(st', l) := dec_repeated_message F (fnum f) fn st (as_list (slot_get (fst t) slot)) in (st', set_slot t slot (VList l))) in
            step_ok h st t st1 t1).
  { intros ptr Eptr Hpf fn.
    pose proof (greedy_loop h (fnum f) slot B as_list VList ltac:(reflexivity) (rep_msg_elems s rrec idx ptr) (fun fuel st0 l0 => dec_repeated_message fuel (fnum f) fn st0 l0) Hv) as Hl'.
    specialize (Hl' ltac:(intros tok t0 E; rewrite (Hhs tok t0 E), <- Eptr; reflexivity) ltac:(reflexivity)).
    specialize (Hl' ltac:(intros fuel st0 l0 Hne; destruct fuel; [reflexivity|]; cbn [dec_repeated_message];
                          replace (fnum f =? pf st0) with false by (symmetry; apply Z.eqb_neq; congruence); reflexivity)).
    specialize (Hl' ltac:(intros fuel st0 l0 He0 Hb0 HB0 Hpf0; apply (repmsg_iter idx (fnum f) ptr fuel st0 l0 Hgood Hv He0 Hb0 HB0 Hpf0))).
    specialize (Hl' (fst t) (snd t) F' st (as_list (slot_get (fst t) slot)) (fst t) ltac:(intros g; reflexivity) He Hb HB Hpf).
    cbv beta in Hl'. fold F in Hl'.
    destruct (dec_repeated_message F (fnum f) fn st (as_list (slot_get (fst t) slot))) as [st' l]. destruct t as [fs un]. exact Hl'. }
  destruct (i_pointer (field_info s f)) eqn:Ep; injection Hg as <-;
    cbn [op_match] in Hm; unfold dec_op; cbn [op_match]; rewrite Hm; cbn [dec_op_run]; apply Z.eqb_eq in Hm.
  - apply (G true eq_refl Hm).
  - apply (G false eq_refl Hm).
Qed.
End RepMsgFields.

(* ---------------------------------------------------------------- two-field helper messages (sec/nanos, map entries) *)
Section Mini.
Context {T : Type}.
Definition sreader (k : kind) (num : Z) (get : T -> val) (set : T -> val -> T) : reader T dstate :=
  {| rmatch := fun st => pf st =? num;
     rrun := fun st t => let '(st', x) := dec_single k num st (get t) in (st', set t x) |}.

Variables (k1 k2 : kind) (get1 get2 : T -> val) (set1 set2 : T -> val -> T).
Hypothesis Hsg1 : forall t, set1 t (get1 t) = t.
Hypothesis Hsg2 : forall t, set2 t (get2 t) = t.
Let readers := [sreader k1 1 get1 set1; sreader k2 2 get2 set2].
Definition mini_h (tok : token) (t : T) : option T :=
  if t_num tok =? 1 then match tok_scalar k1 tok with Some x => Some (set1 t x) | None => None end
  else if t_num tok =? 2 then match tok_scalar k2 tok with Some x => Some (set2 t x) | None => None end
  else Some t.

Lemma mini_body_pass st t :
  pass_list _ _ readers st t =
  (let '(st1, x) := dec_single k1 1 st (get1 t) in let '(st2, y) := dec_single k2 2 st1 (get2 (set1 t x)) in (st2, set2 (set1 t x) y)).
Proof.
  unfold pass_list, readers. cbn [fold_left]. unfold step. cbn [fst snd rrun sreader].
  destruct (dec_single k1 1 st (get1 t)) as [st1 x]. cbn [fst snd]. reflexivity.
Qed.

Lemma mini_decode_ok F b st0 t : bytes_ok b -> (length b + 3 <= F)%nat -> err st0 = None ->
  let '(st', t') := Dec.loop F (fun st t => pass_list _ _ readers st t) (push_state b st0) t in
  match tokens b with
  | None => err st' <> None
  | Some ts => match fold_opt mini_h ts (Some t) with
               | Some t'' => err st' = None /\ t' = t''
               | None => err st' <> None
               end
  end.
Proof.
  intros Hb HF He0.
  assert (Hin : forall r, In r readers -> (r = sreader k1 1 get1 set1 \/ r = sreader k2 2 get2 set2)) by (intros r [<-|[<-|[]]]; auto).
  assert (HLE : forall st t n n', pf_inv st -> (blen st + 3 <= n)%nat -> (blen st + 2 <= n')%nat ->
            Dec.loop n (fun st t => pass_list _ _ readers st t) st t = loop1 _ _ pfv skip readers n' st t).
  { intros st2 t2 n n' Hi Hn Hn'. rewrite loop_is_abstract.
    apply (loop_equiv _ _ pfv blen skip readers pf_inv); try assumption.
    - intros r st1 t1 Hr Hi1. destruct (Hin r Hr) as [->| ->]; cbn [rrun sreader].
      + pose proof (single_inv k1 1 st1 (get1 t1) Hi1) as H. destruct (dec_single k1 1 st1 (get1 t1)). exact H.
      + pose proof (single_inv k2 2 st1 (get2 t1) Hi1) as H. destruct (dec_single k2 2 st1 (get2 t1)). exact H.
    - intros st1 _. apply inv_next_field.
    - intros r st1 Hr _ Hm. destruct (Hin r Hr) as [->| ->]; cbn [rmatch sreader] in Hm; apply Z.eqb_eq in Hm; unfold pfv; rewrite Hm; reflexivity.
    - intros r st1 t1 Hr _ Hm. destruct (Hin r Hr) as [->| ->]; cbn [rmatch rrun sreader] in *; apply Z.eqb_neq in Hm;
        rewrite dec_single_other by congruence; [rewrite Hsg1|rewrite Hsg2]; reflexivity.
    - intros r st1 t1 Hr _ Hm. destruct (Hin r Hr) as [->| ->]; cbn [rmatch rrun sreader] in *; apply Z.eqb_eq in Hm.
      + pose proof (single_adv k1 1 st1 (get1 t1) Hm) as H. destruct (dec_single k1 1 st1 (get1 t1)). exact H.
      + pose proof (single_adv k2 2 st1 (get2 t1) Hm) as H. destruct (dec_single k2 2 st1 (get2 t1)). exact H.
    - intros i j ri rj st1 _ Hi1 Hj1 Mi Mj. unfold readers in Hi1, Hj1.
      destruct i as [|[|i]]; destruct j as [|[|j]]; cbn in Hi1, Hj1; try reflexivity; try (destruct i; discriminate); try (destruct j; discriminate);
        injection Hi1 as <-; injection Hj1 as <-; cbn [rmatch sreader] in *; apply Z.eqb_eq in Mi; apply Z.eqb_eq in Mj; lia.
    - intros st1 _. apply skip_progress. }
  assert (Hst : forall r, In r readers -> reader_sticky r).
  { intros r Hr st1 t1 He. destruct (Hin r Hr) as [->| ->]; cbn [rrun sreader].
    - pose proof (single_sticky k1 1 st1 (get1 t1) He) as H. destruct (dec_single k1 1 st1 (get1 t1)). exact H.
    - pose proof (single_sticky k2 2 st1 (get2 t1) He) as H. destruct (dec_single k2 2 st1 (get2 t1)). exact H. }
  assert (Hro : forall r, In r readers -> reader_ok mini_h (length b) r).
  { intros r Hr st1 t1 _ He Hb1 _ Hm. destruct (Hin r Hr) as [->| ->]; cbn [rmatch rrun sreader] in *; apply Z.eqb_eq in Hm.
    - pose proof (single_step mini_h k1 1 get1 set1 st1 t1 He Hb1 Hm) as Hs. destruct (dec_single k1 1 st1 (get1 t1)) as [st2 x].
      apply Hs. intros tok E. unfold mini_h. rewrite E. reflexivity.
    - pose proof (single_step mini_h k2 2 get2 set2 st1 t1 He Hb1 Hm) as Hs. destruct (dec_single k2 2 st1 (get2 t1)) as [st2 x].
      apply Hs. intros tok E. unfold mini_h. rewrite E. reflexivity. }
  assert (Hsk : forall st1 t1, (blen st1 <= length b)%nat -> err st1 = None -> bytes_ok (buf st1) -> pfv st1 = true ->
            find (fun r => rmatch _ _ r st1) readers = None -> step_ok mini_h st1 t1 (skip st1) t1).
  { intros st1 t1 _ He Hb1 _ Hf. apply skip_step; [exact He|exact Hb1|]. intros p kk _. unfold mini_h, tok_of. cbn [t_num].
    unfold readers in Hf. cbn [find rmatch sreader] in Hf.
    destruct (pf st1 =? 1); [discriminate|]. destruct (pf st1 =? 2); [discriminate|]. reflexivity. }
  unfold push_state. destruct b as [|y l].
  - change (next_field 0 {| pf := 0; pw := 0; buf := []; err := err st0 |}) with (mkst fieldDone 0 [] (err st0)).
    rewrite (HLE _ t F F); [|right; left; reflexivity|unfold blen; cbn; lia|unfold blen; cbn; lia].
    rewrite loop1_invalid by reflexivity. rewrite tokens_nil. cbn. split; [exact He0|reflexivity].
  - pose proof (tokens_enter (y :: l) 0 0 (err st0) Hb ltac:(discriminate)) as Hent. cbn zeta in Hent.
    change {| pf := 0; pw := 0; buf := y :: l; err := err st0 |} with (mkst 0 0 (y :: l) (err st0)).
    set (st := next_field 0 (mkst 0 0 (y :: l) (err st0))) in *.
    destruct Hent as [[Hv [Hee [Hst' [Hlen Hbb]]]]|[Hee [Hpf Htk]]].
    + rewrite (HLE st t F F); [|left; exact Hv|unfold blen; lia|unfold blen; lia].
      pose proof (loop1_stream mini_h (length (y :: l)) readers Hro Hst Hsk F st t ltac:(unfold blen; lia) ltac:(unfold blen; lia)
                    ltac:(congruence) Hbb Hv) as Hs.
      destruct (loop1 T dstate pfv skip readers F st t) as [st' t'].
      rewrite Hst' in Hs. destruct (tokens (y :: l)) as [ts|]; [|exact Hs].
      destruct (fold_opt mini_h ts (Some t)) as [t''|]; [|exact Hs]. tauto.
    + assert (Hw : (blen st <= length (y :: l))%nat).
      { pose proof (adv_weak _ _ (adv_next_field 0 (mkst 0 0 (y :: l) (err st0)))) as Hw. unfold blen in *. cbn [buf mkst] in Hw. exact Hw. }
      rewrite (HLE st t F F); [|right; right; exact Hpf|lia|lia].
      rewrite loop1_invalid by (unfold pfv; rewrite Hpf; reflexivity). rewrite Htk. exact Hee.
Qed.
End Mini.

(* ---------------------------------------------------------------- picoconv casts: Timestamp and Duration *)
Definition sn_get1 (sn : Z * Z) : val := VInt (fst sn).
Definition sn_set1 (sn : Z * Z) (v : val) : Z * Z := (as_int v, snd sn).
Definition sn_get2 (sn : Z * Z) : val := VInt (snd sn).
Definition sn_set2 (sn : Z * Z) (v : val) : Z * Z := (fst sn, as_int v).
Definition sn_h := mini_h KInt64 KInt32 sn_set1 sn_set2.

Lemma dec_sec_nanos_pass st sn :
  dec_sec_nanos st sn = pass_list _ _ [sreader KInt64 1 sn_get1 sn_set1; sreader KInt32 2 sn_get2 sn_set2] st sn.
Proof.
  rewrite mini_body_pass. unfold dec_sec_nanos, sn_get1, sn_set1, sn_get2, sn_set2. cbn [fst snd].
  destruct (dec_single KInt64 1 st (VInt (fst sn))) as [st1 v1]. destruct (dec_single KInt32 2 st1 (VInt (snd sn))) as [st2 v2]. reflexivity.
Qed.

Lemma sec_nanos_of_fold b : sec_nanos_of b = match tokens b with Some ts => fold_opt sn_h ts (Some (0, 0)) | None => None end.
Proof.
  unfold sec_nanos_of. destruct (tokens b) as [ts|]; [|reflexivity]. unfold fold_opt. generalize (Some (0, 0)) as acc.
  induction ts as [|tok ts IH]; intros acc; [reflexivity|]. cbn [fold_left]. rewrite <- IH. f_equal.
  destruct acc as [[sec nanos]|]; [|reflexivity]. unfold sn_h, mini_h, sn_set1, sn_set2. cbn [fst snd].
  destruct (t_num tok =? 1); [destruct (tok_scalar KInt64 tok); reflexivity|].
  destruct (t_num tok =? 2); [destruct (tok_scalar KInt32 tok); reflexivity|reflexivity].
Qed.

Lemma sec_nanos_inner F b st0 : bytes_ok b -> (length b + 3 <= F)%nat -> err st0 = None ->
  let '(st', sn') := Dec.loop F dec_sec_nanos (push_state b st0) (0, 0) in
  match sec_nanos_of b with Some sn'' => err st' = None /\ sn' = sn'' | None => err st' <> None end.
Proof.
  intros Hb HF He0.
  pose proof (mini_decode_ok KInt64 KInt32 sn_get1 sn_get2 sn_set1 sn_set2 ltac:(intros [a c]; reflexivity) ltac:(intros [a c]; reflexivity)
                F b st0 (0, 0) Hb HF He0) as H.
  assert (E : Dec.loop F dec_sec_nanos (push_state b st0) (0, 0) =
              Dec.loop F (fun st t => pass_list _ _ [sreader KInt64 1 sn_get1 sn_set1; sreader KInt32 2 sn_get2 sn_set2] st t) (push_state b st0) (0, 0)).
  { generalize (push_state b st0) as st. generalize (0, 0) as sn. clear. induction F as [|F IH]; intros sn st; [reflexivity|].
    cbn [Dec.loop]. rewrite dec_sec_nanos_pass. destruct (pass_list _ _ _ st sn) as [st1 sn1].
    destruct (negb (valid_number (pf st1))); [reflexivity|]. destruct (same_len (buf st1) (buf st)); apply IH. }
  rewrite E. destruct (Dec.loop F _ (push_state b st0) (0, 0)) as [st' sn']. rewrite sec_nanos_of_fold.
  destruct (tokens b) as [ts|]; exact H.
Qed.

Definition cast_custom (c : cast) : custom := match c with CastTs => CTimestamp | CastDur => CDuration | CastMap _ _ => CNone end.

Section CastStep.
Variable h : token -> msgv -> option msgv.
Variables (F B : nat).
Hypothesis HB : (B + 3 <= F)%nat.

(* PicoDecode of one Timestamp / Duration occurrence *)
Lemma cast_elem_step c st t field v (put : val -> msgv) : c = CastTs \/ c = CastDur ->
  err st = None -> bytes_ok (buf st) -> pf st = field -> (blen st <= B)%nat ->
  (forall tok, t_num tok = field -> h tok t =
     match t_pay tok with PBytes b => match cast_value (cast_custom c) b with Some x => Some (put x) | None => None end | _ => None end) ->
  let '(st1, x) := dec_cast_elem F c field st v in step_ok h st t st1 (put x).
Proof.
  intros Hc He Hb Hpf HBl Hh.
  assert (Hinner : forall b, bytes_ok b -> (length b <= B)%nat ->
            let '(st', sn') := Dec.loop F dec_sec_nanos (push_state b st) (0, 0) in
            match sec_nanos_of b with Some sn'' => err st' = None /\ sn' = sn'' | None => err st' <> None end).
  { intros b Hbb Hlb. apply sec_nanos_inner; [exact Hbb|lia|exact He]. }
  destruct Hc as [-> | ->]; cbn [dec_cast_elem cast_custom] in *.
  - unfold dec_timestamp. rewrite Hpf, Z.eqb_refl. cbn [negb].
    pose proof (dec_message_step h F B st t field dec_sec_nanos (0, 0) sec_nanos_of
                  (fun sn => put (let '(a, n) := time_unix (fst sn) (snd sn) in VTime a n)) He Hb Hpf HBl Hinner) as Hs.
    destruct (dec_message F field dec_sec_nanos st (0, 0)) as [st1 [sec nanos]]. cbn [fst snd] in Hs.
    destruct (time_unix sec nanos) as [a n] eqn:Et. apply Hs.
    intros tok E. rewrite (Hh tok E). destruct (t_pay tok); try reflexivity. unfold cast_value.
    destruct (sec_nanos_of b) as [[s0 n0]|]; [|reflexivity]. cbn [fst snd]. destruct (time_unix s0 n0); reflexivity.
  - unfold dec_duration. rewrite Hpf, Z.eqb_refl. cbn [negb].
    pose proof (dec_message_step h F B st t field dec_sec_nanos (0, 0) sec_nanos_of
                  (fun sn => put (VDur (dur_join (fst sn) (snd sn)))) He Hb Hpf HBl Hinner) as Hs.
    destruct (dec_message F field dec_sec_nanos st (0, 0)) as [st1 [sec nanos]]. cbn [fst snd] in Hs. apply Hs.
    intros tok E. rewrite (Hh tok E). destruct (t_pay tok); try reflexivity. unfold cast_value.
    destruct (sec_nanos_of b) as [[s0 n0]|]; reflexivity.
Qed.
End CastStep.

(* functional form of one Message/PresentMessage call *)
Definition bad_run {V} (r : dstate * V) : Prop := err (fst r) <> None /\ bytes_ok (buf (fst r)).

Lemma dec_message_fn {V} F B st field (fn : @body V) (v0 : V) (res : bytes -> option V) :
  err st = None -> bytes_ok (buf st) -> pf st = field -> (blen st <= B)%nat ->
  (forall b, bytes_ok b -> (length b <= B)%nat ->
     let '(st', v') := Dec.loop F fn (push_state b st) v0 in
     match res b with Some v'' => err st' = None /\ v' = v'' | None => err st' <> None end) ->
  match parse_value field (pw st) (buf st) with
  | None => bad_run (dec_message F field fn st v0)
  | Some (p, kk) =>
      match p with
      | PBytes b => match res b with
                    | Some v => dec_message F field fn st v0 = (next_field (Z.of_nat kk) st, v)
                    | None => bad_run (dec_message F field fn st v0)
                    end
      | _ => bad_run (dec_message F field fn st v0)
      end
  end.
Proof.
  intros He Hb Hpf HBl Hinner. unfold dec_message, bad_run. rewrite Hpf, Z.eqb_refl. cbn [negb].
  destruct (Z.eqb_spec (pw st) BytesType) as [Ew|Ew]; cbn [negb].
  - change BytesType with 2 in Ew. rewrite Ew. pose proof (consume_bytes_parse field (buf st) Hb) as Hc.
    destruct (parse_value field 2 (buf st)) as [[p kk]|] eqn:Ep.
    + destruct Hc as [b [-> [Ec [Hbb Hlb]]]]. rewrite Ec. replace (Z.of_nat kk <? 0) with false by (symmetry; apply Z.ltb_ge; lia).
      specialize (Hinner b Hbb ltac:(unfold blen in HBl; lia)).
      destruct (Dec.loop F fn (push_state b st) v0) as [inner' v'].
      destruct (res b) as [v''|].
      * destruct Hinner as [Hei ->]. rewrite pop_state_same by congruence. reflexivity.
      * cbn [fst]. split; [apply next_field_err_sticky; cbn [pop_state err]; exact Hinner|apply bytes_ok_next_field; cbn [pop_state buf]; exact Hb].
    + destruct (consume_bytes (buf st)) as [b n]. cbn [snd] in Hc. replace (n <? 0) with true by (symmetry; apply Z.ltb_lt; lia).
      cbn. split; [discriminate|exact Hb].
  - destruct (parse_value field (pw st) (buf st)) as [[p kk]|] eqn:Ep; [|cbn; split; [discriminate|exact Hb]].
    pose proof (parse_value_wire _ _ _ _ _ Ep) as Hw. destruct p; try (cbn; split; [discriminate|exact Hb]). exfalso. apply Ew. exact Hw.
Qed.

Lemma cast_elem_fn F B c st field v : (B + 3 <= F)%nat -> c = CastTs \/ c = CastDur ->
  err st = None -> bytes_ok (buf st) -> pf st = field -> (blen st <= B)%nat ->
  match parse_value field (pw st) (buf st) with
  | None => bad_run (dec_cast_elem F c field st v)
  | Some (p, kk) =>
      match p with
      | PBytes b => match cast_value (cast_custom c) b with
                    | Some x => dec_cast_elem F c field st v = (next_field (Z.of_nat kk) st, x)
                    | None => bad_run (dec_cast_elem F c field st v)
                    end
      | _ => bad_run (dec_cast_elem F c field st v)
      end
  end.
Proof.
  intros HB Hc He Hb Hpf HBl.
  assert (Hinner : forall b, bytes_ok b -> (length b <= B)%nat ->
            let '(st', sn') := Dec.loop F dec_sec_nanos (push_state b st) (0, 0) in
            match sec_nanos_of b with Some sn'' => err st' = None /\ sn' = sn'' | None => err st' <> None end).
  { intros b Hbb Hlb. apply sec_nanos_inner; [exact Hbb|lia|exact He]. }
  pose proof (dec_message_fn F B st field dec_sec_nanos (0, 0) sec_nanos_of He Hb Hpf HBl Hinner) as Hm.
  destruct Hc as [-> | ->]; cbn [dec_cast_elem cast_custom]; unfold bad_run in *.
  - unfold dec_timestamp. rewrite Hpf, Z.eqb_refl. cbn [negb].
    destruct (parse_value field (pw st) (buf st)) as [[p kk]|].
    + destruct p as [pv|pv|pv|b|]; try (revert Hm; destruct (dec_message F field dec_sec_nanos st (0, 0)) as [st1 [a c]]; intros Hm; cbn [fst] in *; try destruct (time_unix a c); exact Hm).
      unfold cast_value. destruct (sec_nanos_of b) as [[s0 n0]|].
      * rewrite Hm. destruct (time_unix s0 n0). reflexivity.
      * revert Hm; destruct (dec_message F field dec_sec_nanos st (0, 0)) as [st1 [a c]]; intros Hm; cbn [fst] in *; try destruct (time_unix a c); exact Hm.
    + revert Hm; destruct (dec_message F field dec_sec_nanos st (0, 0)) as [st1 [a c]]; intros Hm; cbn [fst] in *; try destruct (time_unix a c); exact Hm.
  - unfold dec_duration. rewrite Hpf, Z.eqb_refl. cbn [negb].
    destruct (parse_value field (pw st) (buf st)) as [[p kk]|].
    + destruct p as [pv|pv|pv|b|]; try (revert Hm; destruct (dec_message F field dec_sec_nanos st (0, 0)) as [st1 [a c]]; intros Hm; cbn [fst] in *; try destruct (time_unix a c); exact Hm).
      unfold cast_value. destruct (sec_nanos_of b) as [[s0 n0]|].
      * rewrite Hm. reflexivity.
      * revert Hm; destruct (dec_message F field dec_sec_nanos st (0, 0)) as [st1 [a c]]; intros Hm; cbn [fst] in *; try destruct (time_unix a c); exact Hm.
    + revert Hm; destruct (dec_message F field dec_sec_nanos st (0, 0)) as [st1 [a c]]; intros Hm; cbn [fst] in *; try destruct (time_unix a c); exact Hm.
Qed.

Lemma message_bytes_ok {V} F f (fn : @body V) st v : bytes_ok (buf st) -> bytes_ok (buf (fst (dec_message F f fn st v))).
Proof.
  intros Hb. unfold dec_message. destruct (negb (f =? pf st)); [exact Hb|]. destruct (negb (pw st =? BytesType)); [exact Hb|].
  destruct (consume_bytes (buf st)) as [msg n]. destruct (n <? 0); [exact Hb|].
  destruct (Dec.loop F fn (push_state msg st) v) as [inner' v']. cbn [fst]. apply bytes_ok_next_field. exact Hb.
Qed.
Lemma cast_elem_bytes_ok F c f st v : c = CastTs \/ c = CastDur -> bytes_ok (buf st) -> bytes_ok (buf (fst (dec_cast_elem F c f st v))).
Proof.
  intros [-> | ->] Hb; cbn [dec_cast_elem].
  - unfold dec_timestamp. destruct (negb (pf st =? f)); [destruct v; exact Hb|].
    pose proof (message_bytes_ok F f dec_sec_nanos st (0, 0) Hb) as H. destruct (dec_message F f dec_sec_nanos st (0, 0)) as [st' [a b]].
    destruct (time_unix a b). exact H.
  - unfold dec_duration. destruct (negb (pf st =? f)); [exact Hb|].
    pose proof (message_bytes_ok F f dec_sec_nanos st (0, 0) Hb) as H. destruct (dec_message F f dec_sec_nanos st (0, 0)) as [st' [a b]]. exact H.
Qed.
Lemma while_bytes_ok num step : (forall st l, bytes_ok (buf st) -> bytes_ok (buf (fst (step st l)))) ->
  forall fuel st l, bytes_ok (buf st) -> bytes_ok (buf (fst (while_pending fuel num step st l))).
Proof.
  intros Hs. induction fuel as [|fuel IH]; intros st l Hb; [exact Hb|]. cbn [while_pending].
  destruct (pf st =? num); [|exact Hb]. pose proof (Hs st l Hb) as H1. destruct (step st l) as [st' l']. apply IH. exact H1.
Qed.

Lemma info_cast s f : f_custom f = CTimestamp \/ f_custom f = CDuration ->
  i_kind (field_info s f) = GCast (match f_custom f with CTimestamp => CastTs | _ => CastDur end).
Proof. intros [H|H]; unfold field_info; rewrite H; destruct (fty f); try destruct (is_bytes_kind k); reflexivity. Qed.

Lemma hfield_cast s rrec m slot f tok t : f_custom f = CTimestamp \/ f_custom f = CDuration ->
  hfield s rrec m slot f tok t =
  match t_pay tok with
  | PBytes b =>
      match cast_value (f_custom f) b with
      | None => None
      | Some x =>
          Some (set_nth (clear_siblings m f slot (fst t)) slot
                  (if i_repeated (field_info s f) then VList (as_list (nth slot (fst t) (VInt 0)) ++ [if i_pointer (field_info s f) then VOpt (Some x) else x])
                   else if i_oneof (field_info s f) || i_pointer (field_info s f) then VOpt (Some x) else x), snd t)
      end
  | _ => None
  end.
Proof.
  intros Hc. unfold hfield, apply_known.
  destruct Hc as [Hc|Hc]; rewrite Hc; (destruct (t_pay tok) as [pv|pv|pv|b|]; try reflexivity);
    destruct (cast_value _ b) as [x|]; try reflexivity; destruct (i_repeated (field_info s f)); try reflexivity;
    destruct (i_oneof (field_info s f) || i_pointer (field_info s f)); reflexivity.
Qed.

Section CastFields.
Variables (s : schema) (progs : list prog) (F' : nat).
Let F := S F'.
Variable rec : nat -> @body msgv.
Variable rrec : nat -> bytes -> msgv -> option msgv.
Variable m : mdesc.
Variable h : token -> msgv -> option msgv.
Variable B : nat.
Hypothesis HB : (B + 3 <= F)%nat.
Hypothesis rec_sticky : forall idx, sticky_fn (rec idx).

(* Timestamp / Duration fields of every shape: value, pointer, oneof member, slices of values or pointers *)
Lemma cast_field_ok slot f op :
  f_custom f = CTimestamp \/ f_custom f = CDuration -> valid_number (fnum f) = true ->
  (foneof f <> None -> i_repeated (field_info s f) = false) ->
  gen_field_decode s (oneof_siblings m f slot) slot f = GOk op ->
  (forall tok t, t_num tok = fnum f -> h tok t = hfield s rrec m slot f tok t) ->
  reader_ok h B (op_reader progs F rec op).
Proof.
  intros Hc Hv Hor Hg Hh.
  set (c := match f_custom f with CTimestamp => CastTs | _ => CastDur end).
  assert (Hcc : c = CastTs \/ c = CastDur) by (unfold c; destruct Hc as [-> | ->]; auto).
  assert (Hcu : cast_custom c = f_custom f) by (unfold c; destruct Hc as [-> | ->]; reflexivity).
  pose proof (info_oneof s f) as Hone.
  assert (Hhs : forall tok t, t_num tok = fnum f -> h tok t = _) by (intros tok t E; rewrite (Hh tok t E); apply (hfield_cast s rrec m slot f tok t Hc)).
  clear Hh. unfold gen_field_decode in Hg. rewrite (info_cast s f Hc) in Hg. fold c in Hg.
  intros st t HBl He Hb _ Hm. cbn [op_reader rmatch rrun] in *.
  destruct (foneof f) as [o|] eqn:Eo.
  - (* oneof member *)
    rewrite Hone in Hg. injection Hg as <-. rewrite Hone in Hhs. specialize (Hor ltac:(discriminate)). rewrite Hor in Hhs.
    cbn [op_match] in Hm. unfold dec_op. cbn [op_match]. rewrite Hm. cbn [dec_op_run]. rewrite Hm. apply Z.eqb_eq in Hm.
    rewrite clear_siblings_model.
    match goal with |- context[dec_cast_elem F c (fnum f) st ?cur] =>
      pose proof (cast_elem_step h F B HB c st t (fnum f) cur (fun x => set_slot (clear_siblings m f slot (fst t), snd t) slot (VOpt (Some x))) Hcc He Hb Hm HBl) as Hs;
      destruct (dec_cast_elem F c (fnum f) st cur) as [st1 x] end.
    apply Hs. intros tok E. rewrite (Hhs tok t E), Hcu. cbn [orb]. destruct (t_pay tok) as [pv|pv|pv|b|]; try reflexivity; destruct (cast_value (f_custom f) b); reflexivity.
  - rewrite Hone in Hg, Hhs. cbn [orb] in Hhs. injection Hg as <-.
    assert (Hcl : forall fs0, clear_siblings m f slot fs0 = fs0) by (intros; apply clear_siblings_none; exact Eo).
    cbn [op_match] in Hm. unfold dec_op. cbn [op_match]. rewrite Hm. cbn [dec_op_run]. pose proof Hm as Hm'. apply Z.eqb_eq in Hm.
    destruct (i_repeated (field_info s f)) eqn:Er.
    + (* slices *)
      assert (G : forall ptr : bool, ptr = i_pointer (field_info s f) ->
                let step := fun c0 (l : list val) => let '(c1, x) := dec_cast_elem F c (fnum f) c0 (cast_zero c) in (c1, l ++ [if ptr then VOpt (Some x) else x]) in
                let '(st1, t1) := (let '(st', l) := while_pending F (fnum f) step st (as_list (slot_get (fst t) slot)) in (st', set_slot t slot (VList l))) in
                step_ok h st t st1 t1).
      { intros ptr Eptr step.
        assert (S1 : forall st0 l0, pf_inv st0 -> pf_inv (fst (step st0 l0))).
        { intros st0 l0 Hi0. unfold step. pose proof (cast_elem_inv F' c (fnum f) st0 (cast_zero c) Hv Hi0) as H. fold F in H. destruct (dec_cast_elem F c (fnum f) st0 (cast_zero c)). exact H. }
        assert (S2 : forall st0 l0, pf st0 = fnum f -> adv st0 (fst (step st0 l0))).
        { intros st0 l0 E0. unfold step. pose proof (cast_elem_adv F' c (fnum f) st0 (cast_zero c) Hv E0) as H. fold F in H. destruct (dec_cast_elem F c (fnum f) st0 (cast_zero c)). exact H. }
        assert (S3 : forall st0 l0, err st0 <> None -> err (fst (step st0 l0)) <> None).
        { intros st0 l0 He0. unfold step. pose proof (cast_elem_sticky F' c (fnum f) st0 (cast_zero c) Hv He0) as H. fold F in H. destruct (dec_cast_elem F c (fnum f) st0 (cast_zero c)). exact H. }
        assert (S4 : forall st0 l0, bytes_ok (buf st0) -> bytes_ok (buf (fst (step st0 l0)))).
        { intros st0 l0 Hb0. unfold step. pose proof (cast_elem_bytes_ok F c (fnum f) st0 (cast_zero c) Hcc Hb0) as H. destruct (dec_cast_elem F c (fnum f) st0 (cast_zero c)). exact H. }
        pose proof (greedy_loop h (fnum f) slot B as_list VList ltac:(reflexivity)
                      (fun tok => match t_pay tok with
                                  | PBytes b => match cast_value (f_custom f) b with
                                                | Some x => Some (fun l : list val => l ++ [if ptr then VOpt (Some x) else x]) | None => None end
                                  | _ => None end)
                      (fun fuel st0 l0 => while_pending fuel (fnum f) step st0 l0) Hv) as Hl'.
        specialize (Hl' ltac:(intros tok t0 E; rewrite (Hhs tok t0 E), Hcl, <- Eptr; destruct (t_pay tok); try reflexivity; destruct (cast_value (f_custom f) b); reflexivity)
                        ltac:(reflexivity)).
        specialize (Hl' ltac:(intros fuel st0 l0 Hne; destruct fuel; [reflexivity|]; cbn [while_pending];
                              replace (pf st0 =? fnum f) with false by (symmetry; apply Z.eqb_neq; exact Hne); reflexivity)).
        assert (Hit : forall fuel st0 l0, err st0 = None -> bytes_ok (buf st0) -> (blen st0 <= B)%nat -> pf st0 = fnum f ->
                  match parse_value (fnum f) (pw st0) (buf st0) with
                  | None => err (fst (while_pending (S fuel) (fnum f) step st0 l0)) <> None /\ bytes_ok (buf (fst (while_pending (S fuel) (fnum f) step st0 l0)))
                  | Some (p, kk) =>
                      match (match t_pay (tok_of st0 p kk) with
                             | PBytes b => match cast_value (f_custom f) b with
                                           | Some x => Some (fun l : list val => l ++ [if ptr then VOpt (Some x) else x]) | None => None end
                             | _ => None end) with
                      | None => err (fst (while_pending (S fuel) (fnum f) step st0 l0)) <> None /\ bytes_ok (buf (fst (while_pending (S fuel) (fnum f) step st0 l0)))
                      | Some g => while_pending (S fuel) (fnum f) step st0 l0 = while_pending fuel (fnum f) step (next_field (Z.of_nat kk) st0) (g l0)
                      end
                  end).
        { intros fuel st0 l0 He0 Hb0 HB0 Hpf0. cbn [while_pending]. rewrite Hpf0, Z.eqb_refl.
          pose proof (cast_elem_fn F B c st0 (fnum f) (cast_zero c) HB Hcc He0 Hb0 Hpf0 HB0) as Hfn. rewrite Hcu in Hfn. unfold bad_run in Hfn.
          assert (Hbad : err (fst (dec_cast_elem F c (fnum f) st0 (cast_zero c))) <> None /\ bytes_ok (buf (fst (dec_cast_elem F c (fnum f) st0 (cast_zero c)))) ->
                    err (fst (let '(st', l') := step st0 l0 in while_pending fuel (fnum f) step st' l')) <> None /\
                    bytes_ok (buf (fst (let '(st', l') := step st0 l0 in while_pending fuel (fnum f) step st' l')))).
          { intros [Hbe Hbb]. unfold step at 1 3. destruct (dec_cast_elem F c (fnum f) st0 (cast_zero c)) as [c1 x]. cbn [fst] in *.
            destruct (while_facts (fnum f) step Hv S1 S2 S3 fuel c1 (l0 ++ [if ptr then VOpt (Some x) else x])) as [_ [_ [I3 _]]].
            split; [apply I3, Hbe|apply (while_bytes_ok (fnum f) step S4), Hbb]. }
          destruct (parse_value (fnum f) (pw st0) (buf st0)) as [[p kk]|]; [|apply Hbad, Hfn].
          cbn [tok_of t_pay]. destruct p as [pv|pv|pv|b|]; try (apply Hbad, Hfn).
          destruct (cast_value (f_custom f) b) as [x|]; [|apply Hbad, Hfn].
          unfold step at 1. rewrite Hfn. reflexivity. }
        specialize (Hl' Hit (fst t) (snd t) F' st (as_list (slot_get (fst t) slot)) (fst t) ltac:(intros g; reflexivity) He Hb HBl Hm).
        cbv beta in Hl'. fold F in Hl'.
        destruct (while_pending F (fnum f) step st (as_list (slot_get (fst t) slot))) as [st' l]. destruct t as [fs un]. exact Hl'. }
      destruct (i_pointer (field_info s f)) eqn:Ep; [apply (G true eq_refl)|apply (G false eq_refl)].
    + destruct (i_pointer (field_info s f)) eqn:Ep.
      * rewrite Hm'.
        match goal with |- context[dec_cast_elem F c (fnum f) st ?cur] =>
          pose proof (cast_elem_step h F B HB c st t (fnum f) cur (fun x => set_slot t slot (VOpt (Some x))) Hcc He Hb Hm HBl) as Hs;
          destruct (dec_cast_elem F c (fnum f) st cur) as [st1 x] end.
        apply Hs. intros tok E. rewrite (Hhs tok t E), Hcu, Hcl. destruct (t_pay tok) as [pv|pv|pv|b|]; try reflexivity; destruct (cast_value (f_custom f) b); reflexivity.
      * match goal with |- context[dec_cast_elem F c (fnum f) st ?cur] =>
          pose proof (cast_elem_step h F B HB c st t (fnum f) cur (fun x => set_slot t slot x) Hcc He Hb Hm HBl) as Hs;
          destruct (dec_cast_elem F c (fnum f) st cur) as [st1 x] end.
        apply Hs. intros tok E. rewrite (Hhs tok t E), Hcu, Hcl. destruct (t_pay tok) as [pv|pv|pv|b|]; try reflexivity; destruct (cast_value (f_custom f) b); reflexivity.
Qed.
End CastFields.

(* ---------------------------------------------------------------- maps (the 180 picowire codecs) *)
Definition me_set1 (kv : val * val) (x : val) : val * val := (x, snd kv).
Definition me_set2 (kv : val * val) (x : val) : val * val := (fst kv, x).
Definition me_h (kk vk : kind) := mini_h (T := val * val) kk vk me_set1 me_set2.

Lemma entry_body_pass kk vk st kv :
  entry_body kk vk st kv = pass_list _ _ [sreader kk 1 (@fst val val) me_set1; sreader vk 2 (@snd val val) me_set2] st kv.
Proof.
  rewrite mini_body_pass. unfold entry_body, me_set1, me_set2. cbn [fst snd].
  destruct (dec_single kk 1 st (fst kv)) as [c1 k1]. destruct (dec_single vk 2 c1 (snd kv)) as [c2 v1]. reflexivity.
Qed.

Lemma map_entry_of_fold kk vk b :
  map_entry_of kk vk b = match tokens b with Some ts => fold_opt (me_h kk vk) ts (Some (zero_scalar kk, zero_scalar vk)) | None => None end.
Proof.
  unfold map_entry_of. destruct (tokens b) as [ts|]; [|reflexivity]. unfold fold_opt. generalize (Some (zero_scalar kk, zero_scalar vk)) as acc.
  induction ts as [|tok ts IH]; intros acc; [reflexivity|]. cbn [fold_left]. rewrite <- IH. f_equal.
  destruct acc as [[k v]|]; [|reflexivity]. unfold me_h, mini_h, me_set1, me_set2. cbn [fst snd].
  destruct (t_num tok =? 1); [destruct (tok_scalar kk tok); reflexivity|].
  destruct (t_num tok =? 2); [destruct (tok_scalar vk tok); reflexivity|reflexivity].
Qed.

Lemma entry_inner kk vk F b st0 : bytes_ok b -> (length b + 3 <= F)%nat -> err st0 = None ->
  let '(st', kv') := Dec.loop F (entry_body kk vk) (push_state b st0) (zero_scalar kk, zero_scalar vk) in
  match map_entry_of kk vk b with Some kv'' => err st' = None /\ kv' = kv'' | None => err st' <> None end.
Proof.
  intros Hb HF He0.
  pose proof (mini_decode_ok kk vk (@fst val val) (@snd val val) me_set1 me_set2 ltac:(intros [a c]; reflexivity) ltac:(intros [a c]; reflexivity)
                F b st0 (zero_scalar kk, zero_scalar vk) Hb HF He0) as H.
  assert (E : forall kv st, Dec.loop F (entry_body kk vk) st kv =
              Dec.loop F (fun st t => pass_list _ _ [sreader kk 1 (@fst val val) me_set1; sreader vk 2 (@snd val val) me_set2] st t) st kv).
  { clear. induction F as [|F IH]; intros kv st; [reflexivity|].
    cbn [Dec.loop]. rewrite entry_body_pass. destruct (pass_list _ _ _ st kv) as [st1 kv1].
    destruct (negb (valid_number (pf st1))); [reflexivity|]. destruct (same_len (buf st1) (buf st)); apply IH. }
  rewrite E. destruct (Dec.loop F _ (push_state b st0) (zero_scalar kk, zero_scalar vk)) as [st' kv']. rewrite map_entry_of_fold.
  destruct (tokens b) as [ts|]; exact H.
Qed.

Lemma map_set_spec l k v : map_set l k v key_eqb = spec_map_set l k v.
Proof. reflexivity. Qed.

Definition map_upd (kk vk : kind) (tok : token) : option (list (val * val) -> list (val * val)) :=
  match t_pay tok with
  | PBytes b => match map_entry_of kk vk b with Some (k, v) => Some (fun l => spec_map_set l k v) | None => None end
  | _ => None
  end.

Lemma map_iter F' B kk vk f fuel st l : (B + 3 <= S F')%nat -> valid_number f = true ->
  err st = None -> bytes_ok (buf st) -> (blen st <= B)%nat -> pf st = f ->
  match parse_value f (pw st) (buf st) with
  | None => bad_run (dec_repeated_message (S fuel) f (map_fn F' kk vk) st l)
  | Some (p, kk0) =>
      match map_upd kk vk (tok_of st p kk0) with
      | None => bad_run (dec_repeated_message (S fuel) f (map_fn F' kk vk) st l)
      | Some g => dec_repeated_message (S fuel) f (map_fn F' kk vk) st l =
                  dec_repeated_message fuel f (map_fn F' kk vk) (next_field (Z.of_nat kk0) st) (g l)
      end
  end.
Proof.
  intros HB Hf He Hb HBl Hpf. unfold bad_run.
  cbn [dec_repeated_message]. rewrite Hpf, Z.eqb_refl. cbn [negb]. unfold map_upd, tok_of. cbn [t_pay].
  destruct (Z.eqb_spec (pw st) BytesType) as [Ew|Ew]; cbn [negb].
  - change BytesType with 2 in Ew. rewrite Ew. pose proof (consume_bytes_parse f (buf st) Hb) as Hc.
    destruct (parse_value f 2 (buf st)) as [[p kk0]|] eqn:Ep.
    + destruct Hc as [b [-> [Ec [Hbb Hlb]]]]. rewrite Ec. replace (Z.of_nat kk0 <? 0) with false by (symmetry; apply Z.ltb_ge; lia).
      pose proof (entry_inner kk vk (S F') b st Hbb ltac:(unfold blen in HBl; lia) He) as Hin.
      destruct (Dec.loop (S F') (entry_body kk vk) (push_state b st) (zero_scalar kk, zero_scalar vk)) as [c' [k v]] eqn:Eloop.
      assert (Efn : map_fn F' kk vk (push_state b st) l = (c', map_set l k v key_eqb)) by (unfold map_fn; rewrite Eloop; reflexivity).
      rewrite Efn. destruct (map_entry_of kk vk b) as [[k0 v0]|].
      * destruct Hin as [Hec Ekv]. injection Ekv as -> ->. rewrite pop_state_same by congruence. rewrite map_set_spec. reflexivity.
      * split.
        -- destruct (repmsg_facts f (map_fn F' kk vk) Hf fuel (next_field (Z.of_nat kk0) (pop_state st c')) (map_set l k v key_eqb)) as [_ [_ [I3 _]]].
           apply I3; [apply map_fn_sticky|]. apply next_field_err_sticky. cbn [pop_state err]. exact Hin.
        -- apply repmsg_bytes_ok. apply bytes_ok_next_field. cbn [pop_state buf]. exact Hb.
    + destruct (consume_bytes (buf st)) as [b n]. cbn [snd] in Hc. replace (n <? 0) with true by (symmetry; apply Z.ltb_lt; lia).
      cbn. split; [discriminate|exact Hb].
  - destruct (parse_value f (pw st) (buf st)) as [[p kk0]|] eqn:Ep; [|cbn; split; [discriminate|exact Hb]].
    pose proof (parse_value_wire _ _ _ _ _ Ep) as Hw. destruct p; try (cbn; split; [discriminate|exact Hb]). exfalso. apply Ew. exact Hw.
Qed.

Lemma hfield_map s rrec m slot f kk vk tok t : f_custom f = CNone -> fty f = TMap kk vk -> foneof f = None ->
  hfield s rrec m slot f tok t =
  match map_upd kk vk tok with
  | Some g => Some (set_nth (fst t) slot (VMap (g (match nth slot (fst t) (VInt 0) with VMap l => l | _ => [] end))), snd t)
  | None => None
  end.
Proof.
  intros Hc Ht Ho. unfold hfield, apply_known, map_upd. rewrite Hc, Ht, (clear_siblings_none m f slot (fst t) Ho).
  destruct (t_pay tok); try reflexivity. destruct (map_entry_of kk vk b) as [[k v]|]; reflexivity.
Qed.

Section MapFields.
Variables (s : schema) (progs : list prog) (F' : nat).
Let F := S F'.
Variable rec : nat -> @body msgv.
Variable rrec : nat -> bytes -> msgv -> option msgv.
Variable m : mdesc.
Variable h : token -> msgv -> option msgv.
Variable B : nat.
Hypothesis HB : (B + 3 <= F)%nat.

(* map fields: every key/value kind pair; entries in any order, duplicate keys, missing key or value *)
Lemma map_field_ok kk vk slot f op :
  f_custom f = CNone -> fty f = TMap kk vk -> foneof f = None -> valid_number (fnum f) = true ->
  gen_field_decode s (oneof_siblings m f slot) slot f = GOk op ->
  (forall tok t, t_num tok = fnum f -> h tok t = hfield s rrec m slot f tok t) ->
  reader_ok h B (op_reader progs F rec op).
Proof.
  intros Hc Ht Hno Hv Hg Hh.
  assert (Hhs : forall tok t, t_num tok = fnum f -> h tok t = _) by (intros tok t E; rewrite (Hh tok t E); apply (hfield_map s rrec m slot f kk vk tok t Hc Ht Hno)).
  clear Hh.
  assert (Hop : op = DCast (CastMap kk vk) false false slot (fnum f)).
  { unfold gen_field_decode, field_info in Hg. rewrite Hc, Ht, Hno in Hg. cbn in Hg. destruct (flabel f); cbn in Hg;
      destruct (f_always_present f); cbn in Hg; injection Hg as <-; reflexivity. }
  subst op. intros st t HBl He Hb _ Hm. cbn [op_reader rmatch rrun op_match] in *.
  unfold dec_op. cbn [op_match]. rewrite Hm. cbn [dec_op_run dec_cast_elem]. apply Z.eqb_eq in Hm. unfold F in *. rewrite dec_map_unfold.
  pose proof (greedy_loop h (fnum f) slot B (fun v => match v with VMap l => l | _ => [] end) VMap ltac:(reflexivity)
                (map_upd kk vk) (fun fuel st0 l0 => dec_repeated_message fuel (fnum f) (map_fn F' kk vk) st0 l0) Hv Hhs ltac:(reflexivity)) as Hl.
  specialize (Hl ltac:(intros fuel st0 l0 Hne; destruct fuel; [reflexivity|]; cbn [dec_repeated_message];
                       replace (fnum f =? pf st0) with false by (symmetry; apply Z.eqb_neq; congruence); reflexivity)).
  specialize (Hl ltac:(intros fuel st0 l0 He0 Hb0 HB0 Hpf0; apply (map_iter F' B kk vk (fnum f) fuel st0 l0 HB Hv He0 Hb0 HB0 Hpf0))).
  specialize (Hl (fst t) (snd t) F' st (match slot_get (fst t) slot with VMap l => l | _ => [] end) (fst t) ltac:(intros g; reflexivity) He Hb HBl Hm).
  cbv beta in Hl.
  destruct (dec_repeated_message (S F') (fnum f) (map_fn F' kk vk) st (match slot_get (fst t) slot with VMap l => l | _ => [] end)) as [st' l].
  destruct t as [fs un]. exact Hl.
Qed.
End MapFields.

(* ---------------------------------------------------------------- T_dec by induction on the nesting fuel *)
Definition scalar_like (f : fdesc) : Prop := exists k, fty f = TScalar k \/ (fty f = TEnum /\ k = KInt32).

(* the fields whose statements have a proved token contract *)
Definition supported (s : schema) (f : fdesc) : Prop :=
  (f_custom f = CNone /\
   ((scalar_like f /\ (flabel f <> LRepeated \/ foneof f = None)) \/
    (exists idx, fty f = TMsg idx /\
       (flabel f <> LRepeated \/
        (flabel f = LRepeated /\ foneof f = None))) \/
    (exists kk vk, fty f = TMap kk vk /\ foneof f = None))) \/
  ((f_custom f = CTimestamp \/ f_custom f = CDuration) /\ (foneof f <> None -> i_repeated (field_info s f) = false)).

Definition supported_schema (s : schema) : Prop := forall m, In m s -> forall f, In f (mfields m) -> supported s f.

(* a set of message types closed under "has a field of type", all of whose members are well formed and supported *)
Definition good_set (s : schema) (good : nat -> bool) : Prop := forall idx m, good idx = true -> nth_error s idx = Some m ->
  wf_msg_dec m /\ (forall f, In f (mfields m) -> supported s f) /\ (forall f j, In f (mfields m) -> fty f = TMsg j -> good j = true).

Section TDecInd.
Variables (s : schema) (progs : list prog) (F' : nat) (B : nat).
Let F := S F'.
Hypothesis Hgen : gen_all s = GOk progs.
Variable good : nat -> bool.
Hypothesis Hgood : good_set s good.
Hypothesis HB : (B + 3 <= F)%nat.

Definition msg_rel (fuel : nat) (idx : nat) : Prop := forall b st0 t, bytes_ok b -> (length b <= B)%nat -> err st0 = None ->
  let '(st', t') := Dec.loop F (dec_msg fuel progs F idx) (push_state b st0) t in
  match ref_decode fuel s idx b t with
  | Some t'' => err st' = None /\ t' = t''
  | None => err st' <> None
  end.

Lemma field_contract fuel idx m : good idx = true -> nth_error s idx = Some m -> (forall j, good j = true -> msg_rel fuel j) ->
  forall slot f op, In (slot, f) (number_from 0 (mfields m)) ->
  gen_field_decode s (oneof_siblings m f slot) slot f = GOk op ->
  (forall tok t, t_num tok = fnum f -> apply_token s (ref_decode fuel s) m tok t = hfield s (ref_decode fuel s) m slot f tok t) ->
  reader_ok (apply_token s (ref_decode fuel s) m) B (op_reader progs F (dec_msg fuel progs F) op).
Proof.
  intros Hgi Hm IH slot f op Hin Hg Hh. pose proof (number_from_In _ _ _ Hin) as Hf.
  destruct (Hgood idx m Hgi Hm) as [[_ Hv] [Hsup Hcl]]. destruct (Hv f Hf) as [Hvn _].
  assert (IH' : forall j b st0 t, good j = true -> bytes_ok b -> (length b <= B)%nat -> err st0 = None ->
            let '(st', t') := Dec.loop F (dec_msg fuel progs F j) (push_state b st0) t in
            match ref_decode fuel s j b t with Some t'' => err st' = None /\ t' = t'' | None => err st' <> None end).
  { intros j b st0 t Hj. apply (IH j Hj). }
  destruct (Hsup f Hf) as [[Hc [[[k Hk] Hlab]|[[midx [Hty Hlab]]|[kk [vk [Hty Hno]]]]]]|[Hc Hor]].
  - destruct (flabel f) eqn:El.
    + apply (scalar_like_ok s progs F' _ (ref_decode fuel s) m _ B k slot f op Hc Hk ltac:(rewrite El; discriminate) Hg Hh).
    + apply (scalar_like_ok s progs F' _ (ref_decode fuel s) m _ B k slot f op Hc Hk ltac:(rewrite El; discriminate) Hg Hh).
    + destruct Hlab as [Hl|Hno]; [congruence|].
      apply (rep_scalar_ok s progs F' _ (ref_decode fuel s) m _ B k slot f op Hc Hk El Hno Hvn Hg Hh).
  - pose proof (Hcl f midx Hf Hty) as Hgj. destruct Hlab as [Hl|[Hl Hno]].
    + apply (msg_field_ok s progs F' _ (ref_decode fuel s) m _ B Hgen good IH' midx slot f op Hgj Hc Hty Hl Hg Hh).
    + apply (rep_msg_field_ok s progs F' _ (ref_decode fuel s) m _ B Hgen (dec_msg_sticky_any progs (S F') fuel) good IH' midx slot f op Hgj Hc Hty Hl Hno Hvn Hg Hh).
  - apply (map_field_ok s progs F' _ (ref_decode fuel s) m _ B HB kk vk slot f op Hc Hty Hno Hvn Hg Hh).
  - apply (cast_field_ok s progs F' _ (ref_decode fuel s) m _ B HB slot f op Hc Hvn Hor Hg Hh).
Qed.

Theorem T_dec_msg : forall fuel idx, good idx = true -> msg_rel fuel idx.
Proof.
  induction fuel as [|fuel IH]; intros idx Hgi b st0 t Hb Hl He0.
  - (* no nesting budget: both sides fail *)
    unfold F. cbn [Dec.loop dec_msg ref_decode]. cbn. discriminate.
  - cbn [dec_msg ref_decode].
    destruct (nth_error progs idx) as [p|] eqn:Ep.
    + destruct (gen_all_nth s progs idx p Hgen Ep) as [m [Hm [Hg _]]]. rewrite Hm.
      destruct (Hgood idx m Hgi Hm) as [[Hnd Hf] _].
      pose proof (gen_msg_decode_ok s progs F' (dec_msg fuel progs F) (ref_decode fuel s) m (p_dec p) B Hg Hnd
                    (fun f H => proj1 (Hf f H)) (fun f H => proj2 (Hf f H)) (dec_msg_sticky_any progs (S F') fuel) HB
                    (field_contract fuel idx m Hgi Hm IH) b st0 t Hb Hl He0) as Hmain.
      fold F in Hmain. destruct (Dec.loop F (dec_body progs F (dec_msg fuel progs F) (p_dec p)) (push_state b st0) t) as [st' t'].
      unfold fold_opt in Hmain. destruct (tokens b) as [ts|]; exact Hmain.
    + assert (Hs : nth_error s idx = None).
      { destruct (nth_error s idx) as [m|] eqn:Em; [|reflexivity]. destruct (gen_all_nth_s s progs idx m Hgen Em) as [p Hp]. congruence. }
      rewrite Hs. unfold F. cbn [Dec.loop]. cbn. discriminate.
Qed.
End TDecInd.

(* T_dec for a message type whose closure under "has a field of type" is well formed and supported *)
Theorem T_dec_good s progs good idx data t0 :
  gen_all s = GOk progs -> good_set s good -> good idx = true -> bytes_ok data ->
  let r := pico_unmarshal progs idx data t0 in
  match ref_decode (S (S (S (length data)))) s idx data t0 with
  | Some t'' => fst r = None /\ snd r = t''
  | None => fst r <> None
  end.
Proof.
  intros Hgen Hgood Hgi Hb. cbv zeta. unfold pico_unmarshal.
  pose proof (T_dec_msg s progs (S (S (length data))) (length data) Hgen good Hgood ltac:(lia) (S (S (S (length data)))) idx Hgi data
                {| pf := 0; pw := 0; buf := []; err := None |} t0 Hb (le_n _) eq_refl) as H.
  unfold push_state in H. cbn [err] in H.
  destruct (Dec.loop (S (S (S (length data)))) (dec_msg (S (S (S (length data)))) progs (S (S (S (length data)))) idx)
              (next_field 0 {| pf := 0; pw := 0; buf := data; err := None |}) t0) as [st' t'].
  exact H.
Qed.

(* T_dec: picobuf.Unmarshal with generated code = the reference decoder, on every input *)
Theorem T_dec s progs idx data t0 :
  gen_all s = GOk progs -> wf_schema_dec s -> supported_schema s -> bytes_ok data ->
  let r := pico_unmarshal progs idx data t0 in
  match ref_decode (S (S (S (length data)))) s idx data t0 with
  | Some t'' => fst r = None /\ snd r = t''
  | None => fst r <> None
  end.
Proof.
  intros Hgen Hwf Hsup Hb. apply (T_dec_good s progs (fun _ => true) idx data t0 Hgen); [|reflexivity|exact Hb].
  intros j m _ Hm. pose proof (nth_error_In _ _ Hm) as Hin. split; [apply Hwf, Hin|]. split; [intros f Hf; apply (Hsup m Hin f Hf)|reflexivity].
Qed.

(* ---------------------------------------------------------------- decidable side conditions *)
Definition custom_eqb (a b : custom) : bool :=
  match a, b with CNone, CNone | CTimestamp, CTimestamp | CDuration, CDuration | COpaque, COpaque => true | _, _ => false end.
Definition is_repeated_label (l : label) : bool := match l with LRepeated => true | _ => false end.
Definition no_oneof (f : fdesc) : bool := match foneof f with None => true | Some _ => false end.

Definition supported_b (s : schema) (f : fdesc) : bool :=
  match f_custom f with
  | CNone =>
      match fty f with
      | TScalar _ | TEnum => negb (is_repeated_label (flabel f)) || no_oneof f
      | TMsg _ => if is_repeated_label (flabel f) then no_oneof f else true
      | TMap _ _ => no_oneof f
      | TMapOther => false
      end
  | CTimestamp | CDuration => no_oneof f || negb (i_repeated (field_info s f))
  | COpaque => false
  end.

Lemma supported_b_spec s f : supported_b s f = true -> supported s f.
Proof.
  unfold supported_b, supported, no_oneof, is_repeated_label. intros H.
  destruct (f_custom f) eqn:Ec; try discriminate H.
  - left. split; [reflexivity|]. destruct (fty f) as [k| |idx|kk vk|] eqn:Et; try discriminate H.
    + left. split; [exists k; left; first [exact Et|reflexivity]|]. apply orb_true_iff in H. destruct H as [H|H].
      * left. destruct (flabel f); try discriminate; discriminate H.
      * right. destruct (foneof f); [discriminate H|reflexivity].
    + left. split; [exists KInt32; right; split; [first [exact Et|reflexivity]|reflexivity]|]. apply orb_true_iff in H. destruct H as [H|H].
      * left. destruct (flabel f); try discriminate; discriminate H.
      * right. destruct (foneof f); [discriminate H|reflexivity].
    + right. left. exists idx. split; [first [exact Et|reflexivity]|]. destruct (flabel f) eqn:El.
      * left. discriminate.
      * left. discriminate.
      * right. split; [reflexivity|]. destruct (foneof f); [discriminate H|reflexivity].
    + right. right. exists kk, vk. split; [first [exact Et|reflexivity]|]. destruct (foneof f); [discriminate H|reflexivity].
  - right. split; [left; reflexivity|]. intros Ho. destruct (foneof f); [cbn in H; apply negb_true_iff in H; exact H|congruence].
  - right. split; [right; reflexivity|]. intros Ho. destruct (foneof f); [cbn in H; apply negb_true_iff in H; exact H|congruence].
Qed.

Fixpoint nodup_z (l : list Z) : bool :=
  match l with [] => true | x :: t => negb (existsb (Z.eqb x) t) && nodup_z t end.
Lemma nodup_z_spec l : nodup_z l = true -> NoDup l.
Proof.
  induction l as [|x t IH]; intros H; [constructor|]. cbn in H. apply andb_true_iff in H. destruct H as [H1 H2].
  constructor; [|apply IH, H2]. intros Hin. apply negb_true_iff in H1.
  assert (existsb (Z.eqb x) t = true) by (apply existsb_exists; exists x; split; [exact Hin|apply Z.eqb_refl]). congruence.
Qed.

Definition wf_msg_dec_b (m : mdesc) : bool :=
  nodup_z (map fnum (mfields m)) && forallb (fun f => valid_number (fnum f) && negb (custom_eqb (f_custom f) COpaque)) (mfields m).
Definition tdec_applies (s : schema) : bool :=
  forallb (fun m => wf_msg_dec_b m && forallb (supported_b s) (mfields m)) s.

Lemma tdec_applies_spec s : tdec_applies s = true -> wf_schema_dec s /\ supported_schema s.
Proof.
  unfold tdec_applies. intros H. rewrite forallb_forall in H. split.
  - intros m Hm. specialize (H m Hm). apply andb_true_iff in H. destruct H as [H _]. unfold wf_msg_dec_b in H.
    apply andb_true_iff in H. destruct H as [H1 H2]. split; [apply nodup_z_spec, H1|].
    rewrite forallb_forall in H2. intros f Hf. specialize (H2 f Hf). apply andb_true_iff in H2. destruct H2 as [Hv Hc].
    split; [exact Hv|]. intros E. rewrite E in Hc. discriminate Hc.
  - intros m Hm f Hf. specialize (H m Hm). apply andb_true_iff in H. destruct H as [_ H]. rewrite forallb_forall in H.
    apply supported_b_spec, H, Hf.
Qed.

(* T_dec with a computable applicability test *)
Corollary T_dec_b s progs idx data t0 :
  gen_all s = GOk progs -> tdec_applies s = true -> bytes_ok data ->
  let r := pico_unmarshal progs idx data t0 in
  match ref_decode (S (S (S (length data)))) s idx data t0 with
  | Some t'' => fst r = None /\ snd r = t''
  | None => fst r <> None
  end.
Proof. intros Hgen Ha Hb. destruct (tdec_applies_spec s Ha) as [Hwf Hsup]. apply T_dec; assumption. Qed.

(* ---------------------------------------------------------------- applicability per message type (closure under field types) *)
Definition msg_targets (m : mdesc) : list nat := flat_map (fun f => match fty f with TMsg j => [j] | _ => [] end) (mfields m).
Definition nmem (j : nat) (l : list nat) : bool := existsb (Nat.eqb j) l.
Definition nunion (a b : list nat) : list nat := fold_left (fun acc j => if nmem j acc then acc else acc ++ [j]) b a.
Fixpoint closure (n : nat) (s : schema) (acc : list nat) : list nat :=
  match n with
  | O => acc
  | S n' => closure n' s (nunion acc (flat_map (fun j => match nth_error s j with Some m => msg_targets m | None => [] end) acc))
  end.
Definition reach (s : schema) (idx : nat) : list nat := closure (length s) s [idx].
Definition tdec_applies_at (s : schema) (idx : nat) : bool :=
  let set := reach s idx in
  nmem idx set &&
  forallb (fun j => match nth_error s j with
                    | Some m => wf_msg_dec_b m && forallb (supported_b s) (mfields m) && forallb (fun t => nmem t set) (msg_targets m)
                    | None => true
                    end) set.

Lemma nmem_In j l : nmem j l = true -> In j l.
Proof. unfold nmem. intros H. apply existsb_exists in H. destruct H as [x [Hx E]]. apply Nat.eqb_eq in E. subst. exact Hx. Qed.

Lemma tdec_applies_at_spec s idx : tdec_applies_at s idx = true ->
  good_set s (fun j => nmem j (reach s idx)) /\ nmem idx (reach s idx) = true.
Proof.
  unfold tdec_applies_at. intros H. apply andb_true_iff in H. destruct H as [Hi H]. split; [|exact Hi].
  rewrite forallb_forall in H. intros j m Hj Hm. specialize (H j (nmem_In _ _ Hj)). rewrite Hm in H.
  apply andb_true_iff in H. destruct H as [H Hcl]. apply andb_true_iff in H. destruct H as [Hw Hs].
  split; [|split].
  - unfold wf_msg_dec_b in Hw. apply andb_true_iff in Hw. destruct Hw as [H1 H2]. split; [apply nodup_z_spec, H1|].
    rewrite forallb_forall in H2. intros f Hf. specialize (H2 f Hf). apply andb_true_iff in H2. destruct H2 as [Hv Hc].
    split; [exact Hv|]. intros E. rewrite E in Hc. discriminate Hc.
  - rewrite forallb_forall in Hs. intros f Hf. apply supported_b_spec, Hs, Hf.
  - rewrite forallb_forall in Hcl. intros f t Hf Ht. apply Hcl. unfold msg_targets. apply in_flat_map. exists f. split; [exact Hf|]. rewrite Ht. left. reflexivity.
Qed.

(* T_dec with a computable, per-message applicability test: only the message types reachable from idx matter *)
Corollary T_dec_at s progs idx data t0 :
  gen_all s = GOk progs -> tdec_applies_at s idx = true -> bytes_ok data ->
  let r := pico_unmarshal progs idx data t0 in
  match ref_decode (S (S (S (length data)))) s idx data t0 with
  | Some t'' => fst r = None /\ snd r = t''
  | None => fst r <> None
  end.
Proof. intros Hgen Ha Hb. destruct (tdec_applies_at_spec s idx Ha) as [Hg Hi]. apply (T_dec_good s progs _ idx data t0 Hgen Hg Hi Hb). Qed.
