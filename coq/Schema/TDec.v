(* T_dec: the generated Decode under picobuf's Loop = the reference decoder (Ref.ref_decode),
   on ARBITRARY input bytes, with failure on exactly the inputs the reference rejects.
   Built from the token contract of each emitted statement. *)
From Coq Require Import List ZArith Lia Bool Arith.
From Pico Require Import Base.Res Base.ListX Base.Mach Wire.Wire Schema.Types Schema.Scalar Schema.Gen Schema.Conv Schema.Interp Ref.Ref
  Wire.VarintProofs Wire.WireProofs Schema.ScalarProofs Dec.Dec Dec.ReaderProofs Dec.SafetyProofs Dec.LoopEquiv Dec.LoopInst
  Dec.TokenBridge Dec.StreamLoop Dec.ReaderBridge Schema.DecOps.
Import ListNotations.
Open Scope Z_scope.

(* ---------------------------------------------------------------- generic *)
Lemma bytes_ok_next_field a st : bytes_ok (buf st) -> bytes_ok (buf (next_field a st)).
Proof.
  intros Hb. unfold next_field. destruct ((a <? 0) || negb (has_len_z (buf st) a)); [exact Hb|].
  pose proof (bytes_ok_skipn (Z.to_nat a) (buf st) Hb) as Hs.
  destruct (skipn (Z.to_nat a) (buf st)) as [|y l]; [constructor|].
  destruct (consume_tag (y :: l)) as [[f w] n]. destruct (n <? 0); [exact Hs|].
  destruct (negb (valid_number f)); [exact Hs|]. cbn [buf]. apply bytes_ok_skipn. exact Hs.
Qed.

Section Trans.
Context {T : Type}.
Variable h : token -> T -> option T.

(* a reader that, after one contract step, either stops or continues with another contract step *)
Lemma step_ok_trans st t st1 t1 st2 t2 :
  step_ok h st t st1 t1 -> bytes_ok (buf st2) ->
  (err st1 <> None -> err st2 <> None) ->
  (err st1 = None -> pfv st1 = true -> (st2 = st1 /\ t2 = t1) \/ step_ok h st1 t1 st2 t2) ->
  (err st1 = None -> pfv st1 = false -> st2 = st1 /\ t2 = t1) ->
  step_ok h st t st2 t2.
Proof.
  intros [Hb1 H1] Hb2 Hst Hcont Hstop. split; [exact Hb2|].
  destruct (st_tokens st) as [ts|].
  - destruct H1 as [[He1 Hf]|[He1 [ts1 [ts2 [Ets [Hne [Hf Hnext]]]]]]]; [left; split; [apply Hst, He1|exact Hf]|].
    destruct Hnext as [[-> Hd]|[Hv1 [Es1 Hlt]]].
    + destruct (Hstop He1 (pfv_done st1 Hd)) as [-> ->]. right. split; [exact He1|].
      exists ts1, []. repeat split; try assumption. left. split; [reflexivity|exact Hd].
    + destruct (Hcont He1 Hv1) as [[-> ->]|[_ H2]].
      * right. split; [exact He1|]. exists ts1, ts2. repeat split; try assumption. right. repeat split; assumption.
      * rewrite Es1 in H2. destruct H2 as [[He2 Hf2]|[He2 [ta [tb [Eab [Hna [Hfa Hnext2]]]]]]].
        -- left. split; [exact He2|]. rewrite Ets, fold_opt_app, Hf. exact Hf2.
        -- right. split; [exact He2|]. exists (ts1 ++ ta), tb. split; [rewrite Ets, Eab, app_assoc; reflexivity|].
           split; [destruct ts1; [congruence|discriminate]|]. split; [rewrite fold_opt_app, Hf; exact Hfa|].
           destruct Hnext2 as [Hd2|[Hv2 [Es2 Hlt2]]]; [left; exact Hd2|right; repeat split; try assumption; lia].
  - destruct H1 as [He1|[He1 [Hv1 [Es1 Hlt]]]]; [left; apply Hst, He1|].
    destruct (Hcont He1 Hv1) as [[-> ->]|[_ H2]]; [right; repeat split; assumption|].
    rewrite Es1 in H2. destruct H2 as [He2|[He2 [Hv2 [Es2 Hlt2]]]]; [left; exact He2|right; repeat split; try assumption; lia].
Qed.
End Trans.

(* ---------------------------------------------------------------- fields *)
Definition hfield (s : schema) (rrec : nat -> bytes -> msgv -> option msgv) (m : mdesc) (slot : nat) (f : fdesc)
  : token -> msgv -> option msgv :=
  fun tok t => match apply_known s rrec m slot f tok (fst t) with Some fs => Some (fs, snd t) | None => None end.

Lemma apply_token_known s rrec m tok t slot f : find_field m (t_num tok) = Some (slot, f) ->
  apply_token s rrec m tok t = hfield s rrec m slot f tok t.
Proof. intros E. unfold apply_token, hfield. rewrite E. reflexivity. Qed.

Lemma clear_siblings_none m f slot fs : foneof f = None -> clear_siblings m f slot fs = fs.
Proof. intros E. unfold clear_siblings, oneof_siblings. rewrite E. reflexivity. Qed.

Lemma clear_siblings_model m f slot fs :
  fold_left (fun fs0 sib => set_nth fs0 sib (match slot_get fs0 sib with VMsg _ => VMsg None | _ => VOpt None end)) (oneof_siblings m f slot) fs
  = clear_siblings m f slot fs.
Proof. reflexivity. Qed.

(* field_info facts *)
Lemma info_scalar s f k : f_custom f = CNone -> fty f = TScalar k -> i_kind (field_info s f) = GInternal k.
Proof. intros Hc Ht. unfold field_info. rewrite Hc, Ht. destruct (is_bytes_kind k); reflexivity. Qed.
Lemma info_enum s f : f_custom f = CNone -> fty f = TEnum -> i_kind (field_info s f) = GEnum.
Proof. intros Hc Ht. unfold field_info. rewrite Hc, Ht. reflexivity. Qed.
Lemma info_oneof s f : i_oneof (field_info s f) = match foneof f with Some _ => true | None => false end.
Proof. unfold field_info. destruct (fty f); try destruct (is_bytes_kind k); reflexivity. Qed.
Lemma info_not_repeated s f : flabel f <> LRepeated -> i_repeated (field_info s f) = false.
Proof. intros H. unfold field_info. destruct (flabel f); [| |congruence]; destruct (fty f); try destruct (is_bytes_kind k); reflexivity. Qed.
Lemma info_oneof_nonmsg_ptr s f : foneof f <> None -> (forall idx, fty f <> TMsg idx) -> i_pointer (field_info s f) = false.
Proof.
  intros Ho Hm. unfold field_info. destruct (foneof f) as [o|]; [|congruence].
  destruct (fty f) as [k| |idx|kk vk|]; try (exfalso; apply (Hm idx); reflexivity); destruct (flabel f); cbn;
    destruct (f_always_present f); try destruct (is_bytes_kind k); reflexivity.
Qed.

Lemma hfield_scalar s rrec m slot f k tok t :
  f_custom f = CNone -> (fty f = TScalar k \/ (fty f = TEnum /\ k = KInt32)) -> i_repeated (field_info s f) = false ->
  hfield s rrec m slot f tok t =
  match tok_scalar k tok with
  | Some x => Some (set_nth (clear_siblings m f slot (fst t)) slot
                      (if i_oneof (field_info s f) || i_pointer (field_info s f) then VOpt (Some x) else x), snd t)
  | None => None
  end.
Proof.
  intros Hc Ht Hr. unfold hfield, apply_known. rewrite Hc, Hr.
  destruct Ht as [Ht|[Ht ->]]; rewrite Ht; cbn [kind_of_ftype]; destruct (tok_scalar _ tok); reflexivity.
Qed.

Section Fields.
Variables (s : schema) (progs : list prog) (F' : nat).
Let F := S F'.
Variable rec : nat -> @body msgv.
Variable rrec : nat -> bytes -> msgv -> option msgv.
Variable m : mdesc.
Variable h : token -> msgv -> option msgv.
Variable B : nat.

(* singular / optional / oneof scalar and enum fields *)
Lemma scalar_like_ok k slot f op :
  f_custom f = CNone -> (fty f = TScalar k \/ (fty f = TEnum /\ k = KInt32)) -> flabel f <> LRepeated ->
  gen_field_decode s (oneof_siblings m f slot) slot f = GOk op ->
  (forall tok t, t_num tok = fnum f -> h tok t = hfield s rrec m slot f tok t) ->
  reader_ok h B (op_reader progs F rec op).
Proof.
  intros Hc Ht Hl Hg Hh.
  pose proof (info_not_repeated s f Hl) as Hrep. pose proof (info_oneof s f) as Hone.
  assert (Hhs : forall tok t, t_num tok = fnum f -> h tok t =
            match tok_scalar k tok with
            | Some x => Some (set_nth (clear_siblings m f slot (fst t)) slot
                               (if i_oneof (field_info s f) || i_pointer (field_info s f) then VOpt (Some x) else x), snd t)
            | None => None end).
  { intros tok t E. rewrite (Hh tok t E). apply hfield_scalar; assumption. }
  clear Hh.
  (* the emitted statement *)
  assert (Hop : (i_oneof (field_info s f) = true /\ i_pointer (field_info s f) = false /\
                 op = DOneof slot (fnum f) (oneof_siblings m f slot)
                        (match fty f with TEnum => DEnum slot (fnum f) | _ => DScalar k false false slot (fnum f) end)) \/
                (i_oneof (field_info s f) = false /\ foneof f = None /\
                 op = (match fty f with TEnum => DEnum slot (fnum f) | _ => DScalar k false (i_pointer (field_info s f)) slot (fnum f) end) /\
                 (fty f = TEnum -> i_pointer (field_info s f) = false))).
  { unfold gen_field_decode in Hg. rewrite Hrep in Hg. cbn [andb] in Hg. rewrite Hone in *.
    destruct Ht as [Ht|[Ht ->]].
    - rewrite (info_scalar s f k Hc Ht) in Hg. rewrite Ht. destruct (foneof f) as [o|] eqn:Eo.
      + left. assert (Hp : i_pointer (field_info s f) = false).
        { apply info_oneof_nonmsg_ptr; [rewrite Eo; discriminate|intros idx; rewrite Ht; discriminate]. }
        rewrite Hp in Hg. injection Hg as <-. auto.
      + right. injection Hg as <-. repeat split; auto. discriminate.
    - rewrite (info_enum s f Hc Ht) in Hg. rewrite Ht. destruct (i_pointer (field_info s f)) eqn:Ep; [discriminate Hg|].
      destruct (foneof f) as [o|] eqn:Eo; injection Hg as <-; [left|right]; auto. }
  intros st t HB He Hb Hm.
  destruct Hop as [[Ho [Hp ->]]|[Ho [Hno [-> Hpe]]]].
  - (* oneof member *)
    cbn [op_reader rmatch rrun] in *. cbn [op_match] in Hm. unfold dec_op. cbn [op_match]. rewrite Hm. cbn [dec_op_run]. rewrite Hm.
    apply Z.eqb_eq in Hm. rewrite clear_siblings_model.
    set (cleared := clear_siblings m f slot (fst t)).
    assert (G : forall kk cur, kk = k ->
              let '(st1, t1) := (let '(st', x) := dec_single kk (fnum f) st cur in (st', set_slot (cleared, snd t) slot (VOpt (Some x)))) in
              step_ok h st t st1 t1).
    { intros kk cur ->.
      pose proof (single_step h k (fnum f) (fun _ => cur) (fun t0 x => set_slot (clear_siblings m f slot (fst t0), snd t0) slot (VOpt (Some x))) st t He Hb Hm) as Hs.
      cbv beta in Hs. destruct (dec_single k (fnum f) st cur) as [st1 x]. apply Hs.
      intros tok E. rewrite (Hhs tok t E). rewrite Ho. cbn [orb]. reflexivity. }
    destruct (fty f); try (apply G; reflexivity).
    destruct Ht as [Ht|[_ ->]]; [discriminate Ht|]. apply G. reflexivity.
  - (* plain or optional field *)
    cbn [op_reader rmatch rrun] in *.
    assert (G : forall kk, kk = k -> pf st = fnum f ->
              (i_pointer (field_info s f) = false ->
               let '(st1, t1) := (let '(st', x) := dec_single kk (fnum f) st (slot_get (fst t) slot) in (st', set_slot t slot x)) in
               step_ok h st t st1 t1) /\
              (i_pointer (field_info s f) = true ->
               let '(st1, t1) := (let '(st', x) := dec_single kk (fnum f) st (zero_scalar kk) in (st', set_slot t slot (VOpt (Some x)))) in
               step_ok h st t st1 t1)).
    { intros kk -> Hpf. split; intros Hp.
      - pose proof (single_step h k (fnum f) (fun t0 => slot_get (fst t0) slot) (fun t0 x => set_slot t0 slot x) st t He Hb Hpf) as Hs.
        cbv beta in Hs. destruct (dec_single k (fnum f) st (slot_get (fst t) slot)) as [st1 x]. apply Hs.
        intros tok E. rewrite (Hhs tok t E). rewrite Ho, Hp. cbn [orb]. rewrite (clear_siblings_none m f slot (fst t) Hno). reflexivity.
      - pose proof (single_step h k (fnum f) (fun _ => zero_scalar k) (fun t0 x => set_slot t0 slot (VOpt (Some x))) st t He Hb Hpf) as Hs.
        cbv beta in Hs. destruct (dec_single k (fnum f) st (zero_scalar k)) as [st1 x]. apply Hs.
        intros tok E. rewrite (Hhs tok t E). rewrite Ho, Hp. cbn [orb]. rewrite (clear_siblings_none m f slot (fst t) Hno). reflexivity. }
    destruct (fty f) eqn:Ety.
    1,3,4,5: (cbn [op_match] in Hm; unfold dec_op; cbn [op_match]; rewrite Hm; cbn [dec_op_run]; pose proof Hm as Hm'; apply Z.eqb_eq in Hm';
              destruct (G k eq_refl Hm') as [G1 G2]; destruct (i_pointer (field_info s f)) eqn:Ep; [rewrite Hm; apply G2; reflexivity|apply G1; reflexivity]).
    cbn [op_match] in Hm. unfold dec_op. cbn [op_match]. rewrite Hm. cbn [dec_op_run]. apply Z.eqb_eq in Hm.
    destruct Ht as [Ht|[_ ->]]; [discriminate Ht|]. destruct (G KInt32 eq_refl Hm) as [G1 _]. apply G1. apply Hpe. reflexivity.
Qed.
End Fields.

(* ---------------------------------------------------------------- unknown fields *)
Section Unknown.
Variable h : token -> msgv -> option msgv.
Variable B : nat.

(* Loop's skip, for a message that does not keep unknown fields *)
Lemma skip_ignored st t :
  err st = None -> bytes_ok (buf st) ->
  (forall tok, t_num tok = pf st -> h tok t = Some t) ->
  step_ok h st t (skip st) t.
Proof. intros He Hb Hh. apply skip_step; [exact He|exact Hb|]. intros p k _. apply Hh. reflexivity. Qed.

Definition unrec_tok (mask : Z) (num : Z) : bool := (64 <=? num) || negb (Z.testbit mask num).

Lemma unrec_unfold fuel mask st out : dec_unrecognized (S fuel) mask st out =
  if unrec_match mask st then
    let n := consume_field_value (pf st) (pw st) (buf st) in
    if n <? 0 then (fail (pf st) EParse st, out)
    else dec_unrecognized fuel mask (next_field n st) (out ++ pw_append_tag (pf st) (pw st) ++ firstn (Z.to_nat n) (buf st))
  else (st, out).
Proof. reflexivity. Qed.

(* UnrecognizedFields(mask, &m.XXX_unrecognized): consecutive unknown fields are appended re-tagged *)
Lemma unrec_loop mask :
  (forall tok t, unrec_tok mask (t_num tok) = true ->
     h tok t = Some (fst t, snd t ++ spec_tag (t_num tok) (t_wt tok) ++ t_raw tok)) ->
  forall fuel st fs out, err st = None -> bytes_ok (buf st) -> pfv st = true -> unrec_match mask st = true ->
  let '(st', out') := dec_unrecognized (S fuel) mask st out in step_ok h st (fs, out) st' (fs, out').
Proof.
  intros Hh. induction fuel as [|fuel IH]; intros st fs out He Hb Hv Hm.
  - (* one field *)
    rewrite unrec_unfold. rewrite Hm. cbv zeta. cbn [dec_unrecognized].
    pose proof (cfv_parse_value (pf st) (pw st) (buf st) Hb) as Hc.
    destruct (parse_value (pf st) (pw st) (buf st)) as [[p k]|] eqn:Ep.
    + destruct Hc as [Hc Hk]. rewrite Hc. replace (Z.of_nat k <? 0) with false by (symmetry; apply Z.ltb_ge; lia).
      apply one_token_step; [exact He|exact Hb|]. rewrite Ep.
      assert (Hu : unrec_tok mask (pf st) = true).
      { unfold unrec_match in Hm. apply andb_true_iff in Hm. exact (proj2 Hm). }
      rewrite (Hh (tok_of st p k) (fs, out) Hu). cbn [fst snd tok_of t_num t_wt t_raw]. split; [reflexivity|].
      rewrite Nat2Z.id. f_equal. f_equal. f_equal.
      apply pw_append_tag_spec.
      * unfold pfv, valid_number, MaxValidNumber in Hv. apply andb_true_iff in Hv. destruct Hv as [H1 H2].
        apply Z.leb_le in H1. apply Z.leb_le in H2. lia.
      * apply parse_value_wire in Ep. destruct p; lia.
    + replace (consume_field_value (pf st) (pw st) (buf st) <? 0) with true by (symmetry; apply Z.ltb_lt; lia).
      apply one_token_step; [exact He|exact Hb|]. rewrite Ep. cbn. split; [discriminate|exact Hb].
  - rewrite unrec_unfold. rewrite Hm. cbv zeta.
    pose proof (cfv_parse_value (pf st) (pw st) (buf st) Hb) as Hc.
    destruct (parse_value (pf st) (pw st) (buf st)) as [[p k]|] eqn:Ep.
    + destruct Hc as [Hc Hk]. rewrite Hc. replace (Z.of_nat k <? 0) with false by (symmetry; apply Z.ltb_ge; lia).
      set (st1 := next_field (Z.of_nat k) st).
      set (out1 := out ++ pw_append_tag (pf st) (pw st) ++ firstn (Z.to_nat (Z.of_nat k)) (buf st)).
      assert (S1 : step_ok h st (fs, out) st1 (fs, out1)).
      { specialize (IH st fs out He Hb Hv Hm). clear IH.
        apply one_token_step; [exact He|exact Hb|]. rewrite Ep.
        assert (Hu : unrec_tok mask (pf st) = true).
        { unfold unrec_match in Hm. apply andb_true_iff in Hm. exact (proj2 Hm). }
        rewrite (Hh (tok_of st p k) (fs, out) Hu). cbn [fst snd tok_of t_num t_wt t_raw]. split; [reflexivity|].
        unfold out1. rewrite Nat2Z.id. f_equal. f_equal. f_equal.
        apply pw_append_tag_spec.
        * unfold pfv, valid_number, MaxValidNumber in Hv. apply andb_true_iff in Hv. destruct Hv as [H1 H2].
          apply Z.leb_le in H1. apply Z.leb_le in H2. lia.
        * apply parse_value_wire in Ep. destruct p; lia. }
      destruct (unrec_facts mask (S fuel) st1 out1) as [_ [_ [I3 I4]]].
      destruct (unrec_match mask st1) eqn:Em1.
      * specialize (IH st1 fs out1).
        destruct (dec_unrecognized (S fuel) mask st1 out1) as [st2 out2] eqn:E2. cbn [fst] in *.
        destruct (err st1) eqn:Ee1.
        -- apply (step_ok_trans h st (fs, out) st1 (fs, out1) st2 (fs, out2) S1).
           ++ (* buffer of st2: sub-buffer *) 
              destruct S1 as [Hb1 _].
              assert (Hbb : forall fu s0 o0, bytes_ok (buf s0) -> bytes_ok (buf (fst (dec_unrecognized fu mask s0 o0)))).
              { induction fu as [|fu IHf]; intros s0 o0 H0; [exact H0|]. cbn [dec_unrecognized].
                destruct ((0 <=? pf s0) && ((64 <=? pf s0) || negb (Z.testbit mask (pf s0)))); [|exact H0].
                destruct (consume_field_value (pf s0) (pw s0) (buf s0) <? 0); [exact H0|]. apply IHf, bytes_ok_next_field, H0. }
              pose proof (Hbb (S fuel) st1 out1 Hb1) as Hx. rewrite E2 in Hx. exact Hx.
           ++ intros _. apply I3. congruence.
           ++ intros Hc1. congruence.
           ++ intros Hc1. congruence.
        -- destruct S1 as [Hb1 S1']. assert (Hv1 : pfv st1 = true) by (apply (unrec_match_valid mask st1 (inv_next_field _ _) Em1)).
           specialize (IH eq_refl Hb1 Hv1 Em1).
           apply (step_ok_trans h st (fs, out) st1 (fs, out1) st2 (fs, out2) (conj Hb1 S1')).
           ++ destruct IH as [Hb2 _]. exact Hb2.
           ++ intros Hc1. congruence.
           ++ intros _ _. right. exact IH.
           ++ intros _ Hc1. congruence.
      * rewrite (I4 eq_refl). exact S1.
    + replace (consume_field_value (pf st) (pw st) (buf st) <? 0) with true by (symmetry; apply Z.ltb_lt; lia).
      apply one_token_step; [exact He|exact Hb|]. rewrite Ep. cbn. split; [discriminate|exact Hb].
Qed.
End Unknown.
