(* Structural facts about every decoder primitive and every emitted Decode statement:
   cursor invariant, progress, error stickiness; and the Decode body as a pass over readers.
   With them the abstract Loop theorem applies to the Decode of ANY accepted message. *)
From Coq Require Import List ZArith Lia Bool Arith.
From Pico Require Import Base.Res Base.ListX Base.Mach Wire.Wire Schema.Types Schema.Scalar Schema.Gen Schema.Conv Schema.Interp
  Wire.VarintProofs Dec.Dec Dec.ReaderProofs Dec.SafetyProofs Dec.LoopEquiv Dec.LoopInst.
Import ListNotations.
Open Scope Z_scope.

Definition pf_inv (st : dstate) : Prop := pfv st = true \/ pf st = fieldDone \/ pf st = fieldErrored.
Definition adv (st st' : dstate) : Prop := (blen st' < blen st)%nat \/ (pfv st' = false /\ (blen st' <= blen st)%nat).
Definition sticky_fn {T} (fn : dstate -> T -> dstate * T) : Prop := forall st t, err st <> None -> err (fst (fn st t)) <> None.

Lemma inv_fail f c st : pf_inv (fail f c st).
Proof. right; right; reflexivity. Qed.
Lemma inv_next_field a st : pf_inv (next_field a st).
Proof.
  unfold next_field. destruct ((a <? 0) || negb (has_len_z (buf st) a)); [apply inv_fail|].
  destruct (skipn (Z.to_nat a) (buf st)) as [|y l]; [right; left; reflexivity|].
  destruct (consume_tag (y :: l)) as [[f w] n]. destruct (n <? 0); [apply inv_fail|].
  destruct (valid_number f) eqn:E; cbn [negb]; [left; exact E|apply inv_fail].
Qed.
Lemma adv_fail f c st : adv st (fail f c st).
Proof. right. split; [reflexivity|unfold blen; cbn; lia]. Qed.
Lemma adv_next_field a st : adv st (next_field a st).
Proof. apply next_field_progress. Qed.
Lemma adv_pop_next n outer inner : adv outer (next_field n (pop_state outer inner)).
Proof. pose proof (next_field_progress n (pop_state outer inner)) as H. unfold adv, blen in *. cbn [buf pop_state] in *. exact H. Qed.
Lemma adv_weak st st' : adv st st' -> (blen st' <= blen st)%nat.
Proof. intros [H|[_ H]]; lia. Qed.
Lemma adv_trans_weak st st1 st2 : adv st st1 -> (blen st2 <= blen st1)%nat -> (pfv st1 = false -> st2 = st1) -> adv st st2.
Proof.
  intros [H|[Hv H]] Hle Hs; [left; lia|]. rewrite (Hs Hv). right. split; assumption.
Qed.
Lemma fail_err f c st : err (fail f c st) <> None.
Proof. discriminate. Qed.
Lemma pfv_valid num st : valid_number num = true -> pf st = num -> pfv st = true.
Proof. intros H E. unfold pfv. rewrite E. exact H. Qed.
Lemma pfv_false_nomatch num st : valid_number num = true -> pfv st = false -> (pf st =? num) = false.
Proof. intros H E. apply Z.eqb_neq. intros Heq. unfold pfv in E. rewrite Heq in E. congruence. Qed.

(* ---------------------------------------------------------------- Loop *)
Lemma loop_sticky {T} (fn : @body T) : sticky_fn fn -> forall F, sticky_fn (Dec.loop F fn).
Proof.
  intros Hfn F. induction F as [|f IH]; intros st t He; [exact He|]. cbn [Dec.loop].
  pose proof (Hfn st t He) as H1. destruct (fn st t) as [st1 t1]. cbn [fst] in H1.
  destruct (negb (valid_number (pf st1))); [exact H1|].
  destruct (same_len (buf st1) (buf st)); apply IH; [apply next_field_err_sticky|]; exact H1.
Qed.

(* ---------------------------------------------------------------- primitives *)
Section Prims.
Context {T : Type}.

(* single typed reader *)
Lemma single_inv k f st v : pf_inv st -> pf_inv (fst (dec_single k f st v)).
Proof.
  intros Hi. unfold dec_single. destruct (negb (f =? pf st)); [exact Hi|].
  destruct (negb (pw st =? wire_of k)); [apply inv_fail|].
  destruct (dec_payload k (buf st)) as [x n]. destruct (n <? 0); [apply inv_fail|apply inv_next_field].
Qed.
Lemma single_adv k f st v : pf st = f -> adv st (fst (dec_single k f st v)).
Proof.
  intros E. unfold dec_single. rewrite E, Z.eqb_refl. cbn [negb].
  destruct (negb (pw st =? wire_of k)); [apply adv_fail|].
  destruct (dec_payload k (buf st)) as [x n]. destruct (n <? 0); [apply adv_fail|apply adv_next_field].
Qed.
Lemma single_sticky k f st v : err st <> None -> err (fst (dec_single k f st v)) <> None.
Proof.
  intros He. unfold dec_single. destruct (negb (f =? pf st)); [exact He|].
  destruct (negb (pw st =? wire_of k)); [apply fail_err|].
  destruct (dec_payload k (buf st)) as [x n]. destruct (n <? 0); [apply fail_err|apply next_field_err_sticky; exact He].
Qed.

(* repeated scalars *)
Lemma repeated_facts k f : valid_number f = true -> forall fuel st vs,
  (pf_inv st -> pf_inv (fst (dec_repeated fuel k f st vs))) /\
  (blen (fst (dec_repeated fuel k f st vs)) <= blen st)%nat /\
  (err st <> None -> err (fst (dec_repeated fuel k f st vs)) <> None) /\
  (pfv st = false -> dec_repeated fuel k f st vs = (st, vs)).
Proof.
  intros Hf. induction fuel as [|fuel IH]; intros st vs; [cbn; repeat split; auto|].
  cbn [dec_repeated]. destruct (Z.eqb_spec f (pf st)) as [E|E]; cbn [negb]; [|repeat split; auto].
  assert (Hnv : pfv st = false -> False) by (intros H; unfold pfv in H; rewrite <- E in H; congruence).
  destruct (is_scalar_wire k && (pw st =? BytesType)).
  - destruct (consume_bytes (buf st)) as [packed n].
    destruct (n <? 0); [cbn [fst]; repeat split; [intros; apply inv_fail| |intros; apply fail_err|intros H; destruct (Hnv H)]; unfold blen; cbn; lia|].
    destruct (dec_packed (S (length packed)) k packed vs) as [vs' ok]. destruct ok.
    + destruct (IH (next_field n st) vs') as [I1 [I2 [I3 I4]]]. repeat split.
      * intros _. apply I1, inv_next_field.
      * pose proof (adv_weak _ _ (adv_next_field n st)). lia.
      * intros He. apply I3, next_field_err_sticky, He.
      * intros H; destruct (Hnv H).
    + cbn [fst]. repeat split; [intros; apply inv_fail| |intros; apply fail_err|intros H; destruct (Hnv H)]. unfold blen; cbn; lia.
  - destruct (pw st =? wire_of k).
    + destruct (dec_payload k (buf st)) as [x n].
      destruct (n <? 0); [cbn [fst]; repeat split; [intros; apply inv_fail| |intros; apply fail_err|intros H; destruct (Hnv H)]; unfold blen; cbn; lia|].
      destruct (IH (next_field n st) (vs ++ [x])) as [I1 [I2 [I3 I4]]]. repeat split.
      * intros _. apply I1, inv_next_field.
      * pose proof (adv_weak _ _ (adv_next_field n st)). lia.
      * intros He. apply I3, next_field_err_sticky, He.
      * intros H; destruct (Hnv H).
    + cbn [fst]. repeat split; [intros; apply inv_fail| |intros; apply fail_err|intros H; destruct (Hnv H)]. unfold blen; cbn; lia.
Qed.

Lemma repeated_adv k f : valid_number f = true -> forall fuel st vs, pf st = f ->
  adv st (fst (dec_repeated (S fuel) k f st vs)).
Proof.
  intros Hf fuel st vs E. cbn [dec_repeated]. rewrite E, Z.eqb_refl. cbn [negb].
  destruct (is_scalar_wire k && (pw st =? BytesType)).
  - destruct (consume_bytes (buf st)) as [packed n]. destruct (n <? 0); [apply adv_fail|].
    destruct (dec_packed (S (length packed)) k packed vs) as [vs' ok]. destruct ok; [|apply adv_fail].
    destruct (repeated_facts k f Hf fuel (next_field n st) vs') as [_ [I2 [_ I4]]].
    apply (adv_trans_weak st (next_field n st)); [apply adv_next_field|exact I2|]. intros H. rewrite (I4 H). reflexivity.
  - destruct (pw st =? wire_of k); [|apply adv_fail].
    destruct (dec_payload k (buf st)) as [x n]. destruct (n <? 0); [apply adv_fail|].
    destruct (repeated_facts k f Hf fuel (next_field n st) (vs ++ [x])) as [_ [I2 [_ I4]]].
    apply (adv_trans_weak st (next_field n st)); [apply adv_next_field|exact I2|]. intros H. rewrite (I4 H). reflexivity.
Qed.

(* Message / PresentMessage *)
Lemma message_inv F f (fn : @body T) st t : pf_inv st -> pf_inv (fst (dec_message F f fn st t)).
Proof.
  intros Hi. unfold dec_message. destruct (negb (f =? pf st)); [exact Hi|].
  destruct (negb (pw st =? BytesType)); [apply inv_fail|].
  destruct (consume_bytes (buf st)) as [m n]. destruct (n <? 0); [apply inv_fail|].
  destruct (Dec.loop F fn (push_state m st) t) as [inner' t']. apply inv_next_field.
Qed.
Lemma message_adv F f (fn : @body T) st t : pf st = f -> adv st (fst (dec_message F f fn st t)).
Proof.
  intros E. unfold dec_message. rewrite E, Z.eqb_refl. cbn [negb].
  destruct (negb (pw st =? BytesType)); [apply adv_fail|].
  destruct (consume_bytes (buf st)) as [m n]. destruct (n <? 0); [apply adv_fail|].
  destruct (Dec.loop F fn (push_state m st) t) as [inner' t']. apply adv_pop_next.
Qed.
Lemma message_sticky F f (fn : @body T) : sticky_fn fn -> sticky_fn (dec_message F f fn).
Proof.
  intros Hfn st t He. unfold dec_message. destruct (negb (f =? pf st)); [exact He|].
  destruct (negb (pw st =? BytesType)); [apply fail_err|].
  destruct (consume_bytes (buf st)) as [m n]. destruct (n <? 0); [apply fail_err|].
  pose proof (loop_sticky fn Hfn F (push_state m st) t) as Hl.
  destruct (Dec.loop F fn (push_state m st) t) as [inner' t']. cbn [fst] in *.
  apply next_field_err_sticky. cbn [pop_state err]. apply Hl. unfold push_state. apply next_field_err_sticky. exact He.
Qed.

(* RepeatedMessage *)
Lemma repmsg_facts f (fn : @body T) : valid_number f = true -> forall fuel st t,
  (pf_inv st -> pf_inv (fst (dec_repeated_message fuel f fn st t))) /\
  (blen (fst (dec_repeated_message fuel f fn st t)) <= blen st)%nat /\
  (sticky_fn fn -> err st <> None -> err (fst (dec_repeated_message fuel f fn st t)) <> None) /\
  (pfv st = false -> dec_repeated_message fuel f fn st t = (st, t)).
Proof.
  intros Hf. induction fuel as [|fuel IH]; intros st t; [cbn; repeat split; auto|].
  cbn [dec_repeated_message]. destruct (Z.eqb_spec f (pf st)) as [E|E]; cbn [negb]; [|repeat split; auto].
  assert (Hnv : pfv st = false -> False) by (intros H; unfold pfv in H; rewrite <- E in H; congruence).
  destruct (negb (pw st =? BytesType)); [cbn [fst]; repeat split; [intros; apply inv_fail| |intros; apply fail_err|intros H; destruct (Hnv H)]; unfold blen; cbn; lia|].
  destruct (consume_bytes (buf st)) as [m n].
  destruct (n <? 0); [cbn [fst]; repeat split; [intros; apply inv_fail| |intros; apply fail_err|intros H; destruct (Hnv H)]; unfold blen; cbn; lia|].
  destruct (fn (push_state m st) t) as [inner' t'] eqn:Efn.
  destruct (IH (next_field n (pop_state st inner')) t') as [I1 [I2 [I3 I4]]]. repeat split.
  - intros _. apply I1, inv_next_field.
  - pose proof (adv_weak _ _ (adv_pop_next n st inner')). lia.
  - intros Hfn He. apply I3; [exact Hfn|]. apply next_field_err_sticky. cbn [pop_state err].
    assert (Hp : err (push_state m st) <> None) by (unfold push_state; apply next_field_err_sticky; exact He).
    pose proof (Hfn (push_state m st) t Hp) as H. rewrite Efn in H. exact H.
  - intros H; destruct (Hnv H).
Qed.
Lemma repmsg_adv f (fn : @body T) : valid_number f = true -> forall fuel st t, pf st = f ->
  adv st (fst (dec_repeated_message (S fuel) f fn st t)).
Proof.
  intros Hf fuel st t E. cbn [dec_repeated_message]. rewrite E, Z.eqb_refl. cbn [negb].
  destruct (negb (pw st =? BytesType)); [apply adv_fail|].
  destruct (consume_bytes (buf st)) as [m n]. destruct (n <? 0); [apply adv_fail|].
  destruct (fn (push_state m st) t) as [inner' t'].
  destruct (repmsg_facts f fn Hf fuel (next_field n (pop_state st inner')) t') as [_ [I2 [_ I4]]].
  apply (adv_trans_weak st (next_field n (pop_state st inner'))); [apply adv_pop_next|exact I2|]. intros H. rewrite (I4 H). reflexivity.
Qed.
End Prims.

(* UnrecognizedFields *)
Definition unrec_match (mask : Z) (st : dstate) : bool := (0 <=? pf st) && ((64 <=? pf st) || negb (Z.testbit mask (pf st))).

Lemma unrec_facts mask : forall fuel st out,
  (pf_inv st -> pf_inv (fst (dec_unrecognized fuel mask st out))) /\
  (blen (fst (dec_unrecognized fuel mask st out)) <= blen st)%nat /\
  (err st <> None -> err (fst (dec_unrecognized fuel mask st out)) <> None) /\
  (unrec_match mask st = false -> dec_unrecognized fuel mask st out = (st, out)).
Proof.
  induction fuel as [|fuel IH]; intros st out; [cbn; repeat split; auto|].
  cbn [dec_unrecognized]. fold (unrec_match mask st). destruct (unrec_match mask st) eqn:Em; [|repeat split; auto].
  destruct (consume_field_value (pf st) (pw st) (buf st) <? 0).
  - cbn [fst]. repeat split; [intros; apply inv_fail| |intros; apply fail_err|discriminate]. unfold blen; cbn; lia.
  - destruct (IH (next_field (consume_field_value (pf st) (pw st) (buf st)) st)
                 (out ++ pw_append_tag (pf st) (pw st) ++ firstn (Z.to_nat (consume_field_value (pf st) (pw st) (buf st))) (buf st))) as [I1 [I2 [I3 I4]]].
    repeat split.
    + intros _. apply I1, inv_next_field.
    + pose proof (adv_weak _ _ (adv_next_field (consume_field_value (pf st) (pw st) (buf st)) st)). lia.
    + intros He. apply I3, next_field_err_sticky, He.
    + discriminate.
Qed.
Lemma unrec_match_valid mask st : pf_inv st -> unrec_match mask st = true -> pfv st = true.
Proof.
  intros [H|[H|H]] Hm; [exact H| |]; unfold unrec_match in Hm; rewrite H in Hm; discriminate Hm.
Qed.
Lemma unrec_invalid_nomatch mask st : pf_inv st -> pfv st = false -> unrec_match mask st = false.
Proof. intros Hi Hv. destruct (unrec_match mask st) eqn:E; [|reflexivity]. rewrite (unrec_match_valid mask st Hi E) in Hv. discriminate. Qed.
Lemma unrec_adv mask fuel st out : pf_inv st -> unrec_match mask st = true ->
  adv st (fst (dec_unrecognized (S fuel) mask st out)).
Proof.
  intros Hi Hm. cbn [dec_unrecognized]. fold (unrec_match mask st). rewrite Hm.
  destruct (consume_field_value (pf st) (pw st) (buf st) <? 0); [apply adv_fail|].
  set (n := consume_field_value (pf st) (pw st) (buf st)).
  destruct (unrec_facts mask fuel (next_field n st) (out ++ pw_append_tag (pf st) (pw st) ++ firstn (Z.to_nat n) (buf st))) as [_ [I2 [_ I4]]].
  apply (adv_trans_weak st (next_field n st)); [apply adv_next_field|exact I2|].
  intros H. rewrite I4; [reflexivity|]. apply unrec_invalid_nomatch; [apply inv_next_field|exact H].
Qed.

(* picoconv casts *)
Lemma sec_nanos_sticky : sticky_fn dec_sec_nanos.
Proof.
  intros st sn He. unfold dec_sec_nanos.
  pose proof (single_sticky KInt64 1 st (VInt (fst sn)) He) as H1. destruct (dec_single KInt64 1 st (VInt (fst sn))) as [st1 v1]. cbn [fst] in H1.
  pose proof (single_sticky KInt32 2 st1 (VInt (snd sn)) H1) as H2. destruct (dec_single KInt32 2 st1 (VInt (snd sn))) as [st2 v2]. exact H2.
Qed.

Lemma duration_inv F f st old : pf_inv st -> pf_inv (fst (dec_duration F f st old)).
Proof.
  intros Hi. unfold dec_duration. destruct (negb (pf st =? f)); [exact Hi|].
  pose proof (message_inv F f dec_sec_nanos st (0, 0) Hi) as H. destruct (dec_message F f dec_sec_nanos st (0, 0)) as [st' [a b]]. exact H.
Qed.
Lemma duration_adv F f st old : pf st = f -> adv st (fst (dec_duration F f st old)).
Proof.
  intros E. unfold dec_duration. rewrite E, Z.eqb_refl. cbn [negb].
  pose proof (message_adv F f dec_sec_nanos st (0, 0) E) as H. destruct (dec_message F f dec_sec_nanos st (0, 0)) as [st' [a b]]. exact H.
Qed.
Lemma duration_sticky F f st old : err st <> None -> err (fst (dec_duration F f st old)) <> None.
Proof.
  intros He. unfold dec_duration. destruct (negb (pf st =? f)); [exact He|].
  pose proof (message_sticky F f dec_sec_nanos sec_nanos_sticky st (0, 0) He) as H. destruct (dec_message F f dec_sec_nanos st (0, 0)) as [st' [a b]]. exact H.
Qed.
Lemma timestamp_inv F f st old : pf_inv st -> pf_inv (fst (dec_timestamp F f st old)).
Proof.
  intros Hi. unfold dec_timestamp. destruct (negb (pf st =? f)); [exact Hi|].
  pose proof (message_inv F f dec_sec_nanos st (0, 0) Hi) as H. destruct (dec_message F f dec_sec_nanos st (0, 0)) as [st' [a b]]. exact H.
Qed.
Lemma timestamp_adv F f st old : pf st = f -> adv st (fst (dec_timestamp F f st old)).
Proof.
  intros E. unfold dec_timestamp. rewrite E, Z.eqb_refl. cbn [negb].
  pose proof (message_adv F f dec_sec_nanos st (0, 0) E) as H. destruct (dec_message F f dec_sec_nanos st (0, 0)) as [st' [a b]]. exact H.
Qed.
Lemma timestamp_sticky F f st old : err st <> None -> err (fst (dec_timestamp F f st old)) <> None.
Proof.
  intros He. unfold dec_timestamp. destruct (negb (pf st =? f)); [exact He|].
  pose proof (message_sticky F f dec_sec_nanos sec_nanos_sticky st (0, 0) He) as H. destruct (dec_message F f dec_sec_nanos st (0, 0)) as [st' [a b]]. exact H.
Qed.

(* for c.PendingField() == num { step } *)
Section While.
Variables (num : Z) (step : dstate -> list val -> dstate * list val).
Hypothesis Hnum : valid_number num = true.
Hypothesis step_inv : forall st l, pf_inv st -> pf_inv (fst (step st l)).
Hypothesis step_adv : forall st l, pf st = num -> adv st (fst (step st l)).
Hypothesis step_sticky : forall st l, err st <> None -> err (fst (step st l)) <> None.

Lemma while_facts : forall fuel st l,
  (pf_inv st -> pf_inv (fst (while_pending fuel num step st l))) /\
  (blen (fst (while_pending fuel num step st l)) <= blen st)%nat /\
  (err st <> None -> err (fst (while_pending fuel num step st l)) <> None) /\
  (pfv st = false -> while_pending fuel num step st l = (st, l)).
Proof.
  induction fuel as [|fuel IH]; intros st l; [cbn; repeat split; auto|].
  cbn [while_pending]. destruct (Z.eqb_spec (pf st) num) as [E|E]; [|repeat split; auto].
  pose proof (step_inv st l) as S1. pose proof (step_adv st l E) as S2. pose proof (step_sticky st l) as S3.
  destruct (step st l) as [st' l']. cbn [fst] in *. destruct (IH st' l') as [I1 [I2 [I3 I4]]]. repeat split.
  - intros Hi. apply I1, S1, Hi.
  - pose proof (adv_weak _ _ S2). lia.
  - intros He. apply I3, S3, He.
  - intros H. unfold pfv in H. rewrite E, Hnum in H. discriminate.
Qed.
Lemma while_adv fuel st l : pf st = num -> adv st (fst (while_pending (S fuel) num step st l)).
Proof.
  intros E. cbn [while_pending]. rewrite E, Z.eqb_refl. rewrite <- E.
  pose proof (step_adv st l E) as S2. destruct (step st l) as [st' l']. cbn [fst] in *.
  destruct (while_facts fuel st' l') as [_ [I2 [_ I4]]]. rewrite E.
  apply (adv_trans_weak st st'); [exact S2|exact I2|]. intros H. rewrite (I4 H). reflexivity.
Qed.
End While.

Section OpFacts.
Variable progs : list prog.
Variable F' : nat.
Let F := S F'.
Variable rec : nat -> @body msgv.
Hypothesis rec_sticky : forall idx, sticky_fn (rec idx).

Definition entry_body (kk vk : kind) : @body (val * val) :=
  fun c0 kv => let '(c1, k1) := dec_single kk 1 c0 (fst kv) in
               let '(c2, v1) := dec_single vk 2 c1 (snd kv) in (c2, (k1, v1)).
Lemma entry_body_sticky kk vk : sticky_fn (entry_body kk vk).
Proof.
  intros st kv He. unfold entry_body.
  pose proof (single_sticky kk 1 st (fst kv) He) as H1. destruct (dec_single kk 1 st (fst kv)) as [c1 k1]. cbn [fst] in H1.
  pose proof (single_sticky vk 2 c1 (snd kv) H1) as H2. destruct (dec_single vk 2 c1 (snd kv)) as [c2 v1]. exact H2.
Qed.
Definition map_fn (kk vk : kind) : dstate -> list (val * val) -> dstate * list (val * val) :=
  fun c m => let '(c', (k, v)) := Dec.loop F (entry_body kk vk) c (zero_scalar kk, zero_scalar vk) in (c', map_set m k v key_eqb).
Lemma dec_map_unfold kk vk field st entries :
  dec_map F kk vk field st entries = dec_repeated_message F field (map_fn kk vk) st entries.
Proof. reflexivity. Qed.
Lemma map_fn_sticky kk vk : sticky_fn (map_fn kk vk).
Proof.
  intros st m He. unfold map_fn.
  pose proof (loop_sticky (entry_body kk vk) (entry_body_sticky kk vk) F st (zero_scalar kk, zero_scalar vk) He) as H.
  destruct (Dec.loop F (entry_body kk vk) st (zero_scalar kk, zero_scalar vk)) as [c' [k v]]. exact H.
Qed.

Lemma cast_elem_inv c f st v : valid_number f = true -> pf_inv st -> pf_inv (fst (dec_cast_elem F c f st v)).
Proof.
  intros Hf Hi. destruct c as [| |kk vk]; cbn [dec_cast_elem].
  - pose proof (timestamp_inv F f st (match v with VTime s n => (s, n) | _ => (zero_time_sec, 0) end) Hi) as H.
    destruct (dec_timestamp F f st _) as [st' [s n]]. exact H.
  - pose proof (duration_inv F f st (match v with VDur d => d | _ => 0 end) Hi) as H.
    destruct (dec_duration F f st _) as [st' d]. exact H.
  - rewrite dec_map_unfold. destruct (repmsg_facts f (map_fn kk vk) Hf F st (match v with VMap l => l | _ => [] end)) as [I1 _].
    destruct (dec_repeated_message F f (map_fn kk vk) st _) as [st' l]. exact (I1 Hi).
Qed.
Lemma cast_elem_adv c f st v : valid_number f = true -> pf st = f -> adv st (fst (dec_cast_elem F c f st v)).
Proof.
  intros Hf E. destruct c as [| |kk vk]; cbn [dec_cast_elem].
  - pose proof (timestamp_adv F f st (match v with VTime s n => (s, n) | _ => (zero_time_sec, 0) end) E) as H.
    destruct (dec_timestamp F f st _) as [st' [s n]]. exact H.
  - pose proof (duration_adv F f st (match v with VDur d => d | _ => 0 end) E) as H.
    destruct (dec_duration F f st _) as [st' d]. exact H.
  - rewrite dec_map_unfold. pose proof (repmsg_adv f (map_fn kk vk) Hf F' st (match v with VMap l => l | _ => [] end) E) as H.
    fold F in H. destruct (dec_repeated_message F f (map_fn kk vk) st _) as [st' l]. exact H.
Qed.
Lemma cast_elem_sticky c f st v : valid_number f = true -> err st <> None -> err (fst (dec_cast_elem F c f st v)) <> None.
Proof.
  intros Hf He. destruct c as [| |kk vk]; cbn [dec_cast_elem].
  - pose proof (timestamp_sticky F f st (match v with VTime s n => (s, n) | _ => (zero_time_sec, 0) end) He) as H.
    destruct (dec_timestamp F f st _) as [st' [s n]]. exact H.
  - pose proof (duration_sticky F f st (match v with VDur d => d | _ => 0 end) He) as H.
    destruct (dec_duration F f st _) as [st' d]. exact H.
  - rewrite dec_map_unfold. destruct (repmsg_facts f (map_fn kk vk) Hf F st (match v with VMap l => l | _ => [] end)) as [_ [_ [I3 _]]].
    destruct (dec_repeated_message F f (map_fn kk vk) st _) as [st' l]. exact (I3 (map_fn_sticky kk vk) He).
Qed.
End OpFacts.

(* ---------------------------------------------------------------- emitted statements *)
Definition op_num_ok (op : dop) : bool :=
  match op with
  | DScalar _ _ _ _ num | DMsgPtr _ num _ | DMsgRepPtr _ num _ | DMsgPresent _ num _ | DMsgRepVal _ num _
  | DEnum _ num | DRepEnum _ num | DCast _ _ _ _ num | DOneof _ num _ _ => valid_number num
  | DOpaque _ _ => false
  | DUnrec _ => true
  end.

Section Ops.
Variable progs : list prog.
Variable F' : nat.
Let F := S F'.
Variable rec : nat -> @body msgv.
Hypothesis rec_sticky : forall idx, sticky_fn (rec idx).

Ltac prim H := let st' := fresh "st'" in let x := fresh "x" in
  match goal with |- context[let '(a, b) := ?p in _] => pose proof H; destruct p as [st' x] end; cbn [fst] in *.

Lemma msg_ptr_fn_sticky idx : sticky_fn (fun c (v : val) =>
   let m := match v with VMsg (Some m) => m | _ => zero_msgv progs idx end in let '(c', m') := rec idx c m in (c', VMsg (Some m'))).
Proof. intros st v He. cbv beta zeta. set (m := match v with VMsg (Some m) => m | _ => zero_msgv progs idx end). pose proof (rec_sticky idx st m He) as H. destruct (rec idx st m) as [c' m']. exact H. Qed.
Lemma msg_present_fn_sticky idx : sticky_fn (fun c (v : val) =>
   let m := match v with VEmb fs u => (fs, u) | _ => zero_msgv progs idx end in let '(c', m') := rec idx c m in (c', VEmb (fst m') (snd m'))).
Proof. intros st v He. cbv beta zeta. set (m := match v with VEmb fs u => (fs, u) | _ => zero_msgv progs idx end). pose proof (rec_sticky idx st m He) as H. destruct (rec idx st m) as [c' m']. exact H. Qed.
Lemma msg_oneof_val_fn_sticky idx : sticky_fn (fun c (v : val) =>
   let m := match v with VOpt (Some (VEmb fs1 u1)) => (fs1, u1) | _ => zero_msgv progs idx end in let '(c', m') := rec idx c m in (c', VOpt (Some (VEmb (fst m') (snd m'))))).
Proof. intros st v He. cbv beta zeta. set (m := match v with VOpt (Some (VEmb fs1 u1)) => (fs1, u1) | _ => zero_msgv progs idx end). pose proof (rec_sticky idx st m He) as H. destruct (rec idx st m) as [c' m']. exact H. Qed.
Lemma msg_rep_ptr_fn_sticky idx : sticky_fn (fun c (l : list val) =>
   let '(c', m') := Dec.loop F (rec idx) c (zero_msgv progs idx) in (c', l ++ [VMsg (Some m')])).
Proof. intros st l He. pose proof (loop_sticky (rec idx) (rec_sticky idx) F st (zero_msgv progs idx) He) as H. destruct (Dec.loop F (rec idx) st _) as [c' m']. exact H. Qed.
Lemma msg_rep_val_fn_sticky idx : sticky_fn (fun c (l : list val) =>
   let '(c', m') := Dec.loop F (rec idx) c (zero_msgv progs idx) in (c', l ++ [VEmb (fst m') (snd m')])).
Proof. intros st l He. pose proof (loop_sticky (rec idx) (rec_sticky idx) F st (zero_msgv progs idx) He) as H. destruct (Dec.loop F (rec idx) st _) as [c' m']. exact H. Qed.

Lemma op_match_valid op st : op_num_ok op = true -> pf_inv st -> op_match op st = true -> pfv st = true.
Proof.
  intros Hok Hi Hm. destruct op; cbn [op_num_ok op_match] in *; try discriminate;
    try (apply Z.eqb_eq in Hm; unfold pfv; rewrite Hm; exact Hok).
  exact (unrec_match_valid mask st Hi Hm).
Qed.

(* the three structural facts of a statement whose pending-field test succeeded *)
Lemma op_run_facts op st t : op_num_ok op = true -> op_match op st = true ->
  (pf_inv st -> pf_inv (fst (dec_op_run progs F rec op st t))) /\
  (pf_inv st -> adv st (fst (dec_op_run progs F rec op st t))) /\
  (err st <> None -> err (fst (dec_op_run progs F rec op st t)) <> None).
Proof.
  intros Hok Hm. destruct op; cbn [op_num_ok op_match] in *; try discriminate.
  - (* DScalar *)
    apply Z.eqb_eq in Hm. cbn [dec_op_run]. destruct rep; [|destruct ptr].
    + destruct (repeated_facts k num Hok F st (as_list (slot_get (fst t) slot))) as [I1 [_ [I3 _]]].
      pose proof (repeated_adv k num Hok F' st (as_list (slot_get (fst t) slot)) Hm) as I2. fold F in I2.
      destruct (dec_repeated F k num st _) as [st' l]. cbn [fst] in *. auto.
    + rewrite Hm, Z.eqb_refl. rewrite <- Hm.
      pose proof (single_inv k (pf st) st (zero_scalar k)) as I1. pose proof (single_adv k (pf st) st (zero_scalar k) eq_refl) as I2.
      pose proof (single_sticky k (pf st) st (zero_scalar k)) as I3.
      destruct (dec_single k (pf st) st (zero_scalar k)) as [st' x]. cbn [fst] in *. auto.
    + pose proof (single_inv k num st (slot_get (fst t) slot)) as I1. pose proof (single_adv k num st (slot_get (fst t) slot) Hm) as I2.
      pose proof (single_sticky k num st (slot_get (fst t) slot)) as I3.
      destruct (dec_single k num st _) as [st' x]. cbn [fst] in *. auto.
  - (* DMsgPtr *)
    apply Z.eqb_eq in Hm. cbn [dec_op_run].
    match goal with |- context[dec_message F num ?fn st ?v] =>
      pose proof (message_inv F num fn st v) as I1; pose proof (message_adv F num fn st v Hm) as I2;
      pose proof (message_sticky F num fn (msg_ptr_fn_sticky idx) st v) as I3; destruct (dec_message F num fn st v) as [st' x] end.
    cbn [fst] in *. auto.
  - (* DMsgRepPtr *)
    apply Z.eqb_eq in Hm. cbn [dec_op_run].
    match goal with |- context[dec_repeated_message F num ?fn st ?v] =>
      destruct (repmsg_facts num fn Hok F st v) as [I1 [_ [I3 _]]]; pose proof (repmsg_adv num fn Hok F' st v Hm) as I2; fold F in I2;
      specialize (I3 (msg_rep_ptr_fn_sticky idx)); destruct (dec_repeated_message F num fn st v) as [st' x] end.
    cbn [fst] in *. auto.
  - (* DMsgPresent *)
    apply Z.eqb_eq in Hm. cbn [dec_op_run].
    match goal with |- context[dec_message F num ?fn st ?v] =>
      pose proof (message_inv F num fn st v) as I1; pose proof (message_adv F num fn st v Hm) as I2;
      pose proof (message_sticky F num fn (msg_present_fn_sticky idx) st v) as I3; destruct (dec_message F num fn st v) as [st' x] end.
    cbn [fst] in *. auto.
  - (* DMsgRepVal *)
    apply Z.eqb_eq in Hm. cbn [dec_op_run].
    match goal with |- context[dec_repeated_message F num ?fn st ?v] =>
      destruct (repmsg_facts num fn Hok F st v) as [I1 [_ [I3 _]]]; pose proof (repmsg_adv num fn Hok F' st v Hm) as I2; fold F in I2;
      specialize (I3 (msg_rep_val_fn_sticky idx)); destruct (dec_repeated_message F num fn st v) as [st' x] end.
    cbn [fst] in *. auto.
  - (* DEnum *)
    apply Z.eqb_eq in Hm. cbn [dec_op_run].
    pose proof (single_inv KInt32 num st (slot_get (fst t) slot)) as I1. pose proof (single_adv KInt32 num st (slot_get (fst t) slot) Hm) as I2.
    pose proof (single_sticky KInt32 num st (slot_get (fst t) slot)) as I3.
    destruct (dec_single KInt32 num st _) as [st' x]. cbn [fst] in *. auto.
  - (* DRepEnum *)
    apply Z.eqb_eq in Hm. cbn [dec_op_run]. unfold dec_repeated_enum.
    destruct (repeated_facts KInt32 num Hok F st (as_list (slot_get (fst t) slot))) as [I1 [_ [I3 _]]].
    pose proof (repeated_adv KInt32 num Hok F' st (as_list (slot_get (fst t) slot)) Hm) as I2. fold F in I2.
    destruct (dec_repeated F KInt32 num st _) as [st' l]. cbn [fst] in *. auto.
  - (* DCast *)
    apply Z.eqb_eq in Hm. cbn [dec_op_run]. destruct rep, ptr.
    + match goal with |- context[while_pending F num ?stp st ?l0] =>
        assert (S1 : forall st1 l1, pf_inv st1 -> pf_inv (fst (stp st1 l1)))
          by (intros st0 l1 Hi0; pose proof (cast_elem_inv F' c num st0 (cast_zero c) Hok Hi0) as H; fold F in H; cbv beta; destruct (dec_cast_elem F c num st0 (cast_zero c)); exact H);
        assert (S2 : forall st1 l1, pf st1 = num -> adv st1 (fst (stp st1 l1)))
          by (intros st0 l1 E0; pose proof (cast_elem_adv F' c num st0 (cast_zero c) Hok E0) as H; fold F in H; cbv beta; destruct (dec_cast_elem F c num st0 (cast_zero c)); exact H);
        assert (S3 : forall st1 l1, err st1 <> None -> err (fst (stp st1 l1)) <> None)
          by (intros st0 l1 He0; pose proof (cast_elem_sticky F' c num st0 (cast_zero c) Hok He0) as H; fold F in H; cbv beta; destruct (dec_cast_elem F c num st0 (cast_zero c)); exact H);
        destruct (while_facts num stp Hok S1 S2 S3 F st l0) as [I1 [_ [I3 _]]]; pose proof (while_adv num stp Hok S1 S2 S3 F' st l0 Hm) as I2; fold F in I2;
        destruct (while_pending F num stp st l0) as [st' x] end.
      cbn [fst] in *. auto.
    + match goal with |- context[while_pending F num ?stp st ?l0] =>
        assert (S1 : forall st1 l1, pf_inv st1 -> pf_inv (fst (stp st1 l1)))
          by (intros st0 l1 Hi0; pose proof (cast_elem_inv F' c num st0 (cast_zero c) Hok Hi0) as H; fold F in H; cbv beta; destruct (dec_cast_elem F c num st0 (cast_zero c)); exact H);
        assert (S2 : forall st1 l1, pf st1 = num -> adv st1 (fst (stp st1 l1)))
          by (intros st0 l1 E0; pose proof (cast_elem_adv F' c num st0 (cast_zero c) Hok E0) as H; fold F in H; cbv beta; destruct (dec_cast_elem F c num st0 (cast_zero c)); exact H);
        assert (S3 : forall st1 l1, err st1 <> None -> err (fst (stp st1 l1)) <> None)
          by (intros st0 l1 He0; pose proof (cast_elem_sticky F' c num st0 (cast_zero c) Hok He0) as H; fold F in H; cbv beta; destruct (dec_cast_elem F c num st0 (cast_zero c)); exact H);
        destruct (while_facts num stp Hok S1 S2 S3 F st l0) as [I1 [_ [I3 _]]]; pose proof (while_adv num stp Hok S1 S2 S3 F' st l0 Hm) as I2; fold F in I2;
        destruct (while_pending F num stp st l0) as [st' x] end.
      cbn [fst] in *. auto.
    + rewrite Hm, Z.eqb_refl.
      match goal with |- context[dec_cast_elem F c num st ?v] =>
        pose proof (cast_elem_inv F' c num st v Hok) as I1; pose proof (cast_elem_adv F' c num st v Hok Hm) as I2;
        pose proof (cast_elem_sticky F' c num st v Hok) as I3; fold F in I1, I2, I3; destruct (dec_cast_elem F c num st v) as [st' x] end.
      cbn [fst] in *. auto.
    + match goal with |- context[dec_cast_elem F c num st ?v] =>
        pose proof (cast_elem_inv F' c num st v Hok) as I1; pose proof (cast_elem_adv F' c num st v Hok Hm) as I2;
        pose proof (cast_elem_sticky F' c num st v Hok) as I3; fold F in I1, I2, I3; destruct (dec_cast_elem F c num st v) as [st' x] end.
      cbn [fst] in *. auto.
  - (* DOneof *)
    cbn [dec_op_run]. rewrite Hm. apply Z.eqb_eq in Hm.
    destruct op; cbn [fst]; try (repeat split; intros; [apply inv_fail|apply adv_fail|apply fail_err]).
    + match goal with |- context[dec_single k num st ?v] =>
        pose proof (single_inv k num st v) as I1; pose proof (single_adv k num st v Hm) as I2; pose proof (single_sticky k num st v) as I3;
        destruct (dec_single k num st v) as [st' x] end. cbn [fst] in *. auto.
    + match goal with |- context[dec_message F num ?fn st ?v] =>
        pose proof (message_inv F num fn st v) as I1; pose proof (message_adv F num fn st v Hm) as I2;
        pose proof (message_sticky F num fn (msg_ptr_fn_sticky idx) st v) as I3; destruct (dec_message F num fn st v) as [st' x] end.
      cbn [fst] in *. auto.
    + match goal with |- context[dec_message F num ?fn st ?v] =>
        pose proof (message_inv F num fn st v) as I1; pose proof (message_adv F num fn st v Hm) as I2;
        pose proof (message_sticky F num fn (msg_oneof_val_fn_sticky idx) st v) as I3; destruct (dec_message F num fn st v) as [st' x] end.
      cbn [fst] in *. auto.
    + match goal with |- context[dec_single KInt32 num st ?v] =>
        pose proof (single_inv KInt32 num st v) as I1; pose proof (single_adv KInt32 num st v Hm) as I2; pose proof (single_sticky KInt32 num st v) as I3;
        destruct (dec_single KInt32 num st v) as [st' x] end. cbn [fst] in *. auto.
    + match goal with |- context[dec_cast_elem F c num st ?v] =>
        pose proof (cast_elem_inv F' c num st v Hok) as I1; pose proof (cast_elem_adv F' c num st v Hok Hm) as I2;
        pose proof (cast_elem_sticky F' c num st v Hok) as I3; fold F in I1, I2, I3; destruct (dec_cast_elem F c num st v) as [st' x] end.
      cbn [fst] in *. auto.
  - (* DUnrec *)
    cbn [dec_op_run]. fold (unrec_match mask st) in Hm.
    destruct (unrec_facts mask F st (snd t)) as [I1 [_ [I3 _]]].
    assert (I2 : pf_inv st -> adv st (fst (dec_unrecognized F mask st (snd t)))) by (intros Hi; apply (unrec_adv mask F' st (snd t) Hi Hm)).
    destruct (dec_unrecognized F mask st (snd t)) as [st' out]. cbn [fst] in *. auto.
Qed.
End Ops.

(* ---------------------------------------------------------------- the Decode body as a pass of readers *)
Definition op_reader (progs : list prog) (F : nat) (rec : nat -> @body msgv) (op : dop) : reader msgv dstate :=
  {| rmatch := op_match op; rrun := dec_op progs F rec op |}.

Lemma dec_body_pass progs F rec ops : forall st t,
  dec_body progs F rec ops st t = pass_list _ _ (map (op_reader progs F rec) ops) st t.
Proof.
  unfold dec_body, pass_list. intros st t. generalize (st, t). clear st t.
  induction ops as [|op ops IH]; intros acc; [reflexivity|]. cbn [map fold_left]. rewrite IH. reflexivity.
Qed.

Definition ops_disjoint (ops : list dop) : Prop := forall i j opi opj st, pf_inv st ->
  nth_error ops i = Some opi -> nth_error ops j = Some opj -> op_match opi st = true -> op_match opj st = true -> i = j.

Section BodyLoop.
Variable progs : list prog.
Variable F' : nat.
Let F := S F'.
Variable rec : nat -> @body msgv.
Hypothesis rec_sticky : forall idx, sticky_fn (rec idx).
Variable ops : list dop.
Hypothesis ops_ok : forall op, In op ops -> op_num_ok op = true.
Hypothesis ops_disj : ops_disjoint ops.

Lemma dec_op_inv op st t : In op ops -> pf_inv st -> pf_inv (fst (dec_op progs F rec op st t)).
Proof.
  intros Hin Hi. unfold dec_op. destruct (op_match op st) eqn:Em; [|exact Hi].
  destruct (op_run_facts progs F' rec rec_sticky op st t (ops_ok op Hin) Em) as [I1 _]. exact (I1 Hi).
Qed.
Lemma dec_op_sticky op st t : In op ops -> err st <> None -> err (fst (dec_op progs F rec op st t)) <> None.
Proof.
  intros Hin He. unfold dec_op. destruct (op_match op st) eqn:Em; [|exact He].
  destruct (op_run_facts progs F' rec rec_sticky op st t (ops_ok op Hin) Em) as [_ [_ I3]]. exact (I3 He).
Qed.

(* picobuf's multi-pass Loop over the emitted Decode body is the single-pass dispatch parser *)
Theorem body_loop_single_pass st t n n' : pf_inv st -> (blen st + 3 <= n)%nat -> (blen st + 2 <= n')%nat ->
  Dec.loop n (dec_body progs F rec ops) st t = loop1 _ _ pfv skip (map (op_reader progs F rec) ops) n' st t.
Proof.
  intros Hi Hn Hn'.
  assert (E : Dec.loop n (dec_body progs F rec ops) st t = Dec.loop n (fun st t => pass_list _ _ (map (op_reader progs F rec) ops) st t) st t).
  { clear Hi Hn Hn'. revert st t. induction n as [|n IH]; intros st t; [reflexivity|]. cbn [Dec.loop]. rewrite dec_body_pass.
    destruct (pass_list msgv dstate (map (op_reader progs F rec) ops) st t) as [st1 t1].
    destruct (negb (valid_number (pf st1))); [reflexivity|]. destruct (same_len (buf st1) (buf st)); apply IH. }
  rewrite E, loop_is_abstract.
  apply (loop_equiv _ _ pfv blen skip (map (op_reader progs F rec) ops) pf_inv); try assumption.
  - intros r st0 t0 Hr Hi0. apply in_map_iff in Hr. destruct Hr as [op [<- Hin]]. cbn [rrun op_reader]. apply dec_op_inv; assumption.
  - intros st0 _. apply inv_next_field.
  - intros r st0 Hr Hi0 Hm. apply in_map_iff in Hr. destruct Hr as [op [<- Hin]]. cbn [rmatch op_reader] in Hm.
    exact (op_match_valid op st0 (ops_ok op Hin) Hi0 Hm).
  - intros r st0 t0 Hr Hi0 Hm. apply in_map_iff in Hr. destruct Hr as [op [<- Hin]]. cbn [rmatch rrun op_reader] in *.
    unfold dec_op. rewrite Hm. reflexivity.
  - intros r st0 t0 Hr Hi0 Hm. apply in_map_iff in Hr. destruct Hr as [op [<- Hin]]. cbn [rmatch rrun op_reader] in *.
    unfold dec_op. rewrite Hm.
    destruct (op_run_facts progs F' rec rec_sticky op st0 t0 (ops_ok op Hin) Hm) as [_ [I2 _]]. specialize (I2 Hi0).
    fold F in I2. destruct (dec_op_run progs F rec op st0 t0) as [st1 t1]. exact I2.
  - intros i j ri rj st0 Hi0 Hri Hrj Hmi Hmj. rewrite nth_error_map in Hri, Hrj.
    destruct (nth_error ops i) as [opi|] eqn:Ei; [|discriminate Hri]. destruct (nth_error ops j) as [opj|] eqn:Ej; [|discriminate Hrj].
    injection Hri as <-. injection Hrj as <-. exact (ops_disj i j opi opj st0 Hi0 Ei Ej Hmi Hmj).
  - intros st0 _. apply skip_progress.
Qed.
End BodyLoop.

(* ---------------------------------------------------------------- error stickiness without any side condition *)
Lemma repeated_sticky_any k f : forall fuel st vs, err st <> None -> err (fst (dec_repeated fuel k f st vs)) <> None.
Proof.
  induction fuel as [|fuel IH]; intros st vs He; [exact He|]. cbn [dec_repeated].
  destruct (negb (f =? pf st)); [exact He|].
  destruct (is_scalar_wire k && (pw st =? BytesType)).
  - destruct (consume_bytes (buf st)) as [packed n]. destruct (n <? 0); [apply fail_err|].
    destruct (dec_packed (S (length packed)) k packed vs) as [vs' ok]. destruct ok; [|apply fail_err].
    apply IH, next_field_err_sticky, He.
  - destruct (pw st =? wire_of k); [|apply fail_err].
    destruct (dec_payload k (buf st)) as [x n]. destruct (n <? 0); [apply fail_err|]. apply IH, next_field_err_sticky, He.
Qed.
Lemma repmsg_sticky_any {T} f (fn : @body T) : sticky_fn fn -> forall fuel st t, err st <> None -> err (fst (dec_repeated_message fuel f fn st t)) <> None.
Proof.
  intros Hfn. induction fuel as [|fuel IH]; intros st t He; [exact He|]. cbn [dec_repeated_message].
  destruct (negb (f =? pf st)); [exact He|]. destruct (negb (pw st =? BytesType)); [apply fail_err|].
  destruct (consume_bytes (buf st)) as [m n]. destruct (n <? 0); [apply fail_err|].
  assert (Hp : err (push_state m st) <> None) by (unfold push_state; apply next_field_err_sticky; exact He).
  pose proof (Hfn (push_state m st) t Hp) as H. destruct (fn (push_state m st) t) as [inner' t']. cbn [fst] in H.
  apply IH, next_field_err_sticky. cbn [pop_state err]. exact H.
Qed.
Lemma while_sticky_any num step : (forall st l, err st <> None -> err (fst (step st l)) <> None) ->
  forall fuel st l, err st <> None -> err (fst (while_pending fuel num step st l)) <> None.
Proof.
  intros Hs. induction fuel as [|fuel IH]; intros st l He; [exact He|]. cbn [while_pending].
  destruct (pf st =? num); [|exact He]. pose proof (Hs st l He) as H. destruct (step st l) as [st' l']. apply IH, H.
Qed.

Section StickyAny.
Variable progs : list prog.
Variable F : nat.
Variable rec : nat -> @body msgv.
Hypothesis rec_sticky : forall idx, sticky_fn (rec idx).

Lemma cast_elem_sticky_any c f st v : err st <> None -> err (fst (dec_cast_elem F c f st v)) <> None.
Proof.
  intros He. destruct c as [| |kk vk]; cbn [dec_cast_elem].
  - pose proof (timestamp_sticky F f st (match v with VTime s n => (s, n) | _ => (zero_time_sec, 0) end) He) as H.
    destruct (dec_timestamp F f st _) as [st' [s n]]. exact H.
  - pose proof (duration_sticky F f st (match v with VDur d => d | _ => 0 end) He) as H.
    destruct (dec_duration F f st _) as [st' d]. exact H.
  - unfold dec_map.
    match goal with |- context[dec_repeated_message F f ?fn st ?l] =>
      assert (Hfn : sticky_fn fn);
      [|pose proof (repmsg_sticky_any f fn Hfn F st l He) as H; destruct (dec_repeated_message F f fn st l) as [st' l']; exact H] end.
    intros c0 m0 Hc.
    match goal with |- context[Dec.loop F ?body c0 ?z] =>
      assert (Hb : sticky_fn body);
      [|pose proof (loop_sticky body Hb F c0 z Hc) as H; destruct (Dec.loop F body c0 z) as [c' [k1 v1]]; exact H] end.
    intros c1 kv Hc1.
    pose proof (single_sticky kk 1 c1 (fst kv) Hc1) as H1. destruct (dec_single kk 1 c1 (fst kv)) as [c2 k2]. cbn [fst] in H1.
    pose proof (single_sticky vk 2 c2 (snd kv) H1) as H2. destruct (dec_single vk 2 c2 (snd kv)) as [c3 v3]. exact H2.
Qed.

Lemma dec_op_sticky_any op : sticky_fn (dec_op progs F rec op).
Proof.
  intros st t He. unfold dec_op. destruct (op_match op st); [|exact He].
  destruct op; cbn [dec_op_run].
  - destruct rep; [|destruct ptr].
    + pose proof (repeated_sticky_any k num F st (as_list (slot_get (fst t) slot)) He) as H. destruct (dec_repeated F k num st _) as [st' l]. exact H.
    + destruct (pf st =? num); [|exact He]. pose proof (single_sticky k num st (zero_scalar k) He) as H. destruct (dec_single k num st _) as [st' x]. exact H.
    + pose proof (single_sticky k num st (slot_get (fst t) slot) He) as H. destruct (dec_single k num st _) as [st' x]. exact H.
  - match goal with |- context[dec_message F num ?fn st ?v] =>
      assert (Hfn : sticky_fn fn);
      [|pose proof (message_sticky F num fn Hfn st v He) as H; destruct (dec_message F num fn st v) as [st' x]; exact H] end.
    intros c v Hc. cbv beta zeta. match goal with |- context[rec idx c ?m0] => pose proof (rec_sticky idx c m0 Hc) as H; destruct (rec idx c m0) as [c' m']; exact H end.
  - match goal with |- context[dec_repeated_message F num ?fn st ?v] =>
      assert (Hfn : sticky_fn fn);
      [|pose proof (repmsg_sticky_any num fn Hfn F st v He) as H; destruct (dec_repeated_message F num fn st v) as [st' x]; exact H] end.
    intros c l Hc. pose proof (loop_sticky (rec idx) (rec_sticky idx) F c (zero_msgv progs idx) Hc) as H. destruct (Dec.loop F (rec idx) c _) as [c' m']. exact H.
  - match goal with |- context[dec_message F num ?fn st ?v] =>
      assert (Hfn : sticky_fn fn);
      [|pose proof (message_sticky F num fn Hfn st v He) as H; destruct (dec_message F num fn st v) as [st' x]; exact H] end.
    intros c v Hc. cbv beta zeta. match goal with |- context[rec idx c ?m0] => pose proof (rec_sticky idx c m0 Hc) as H; destruct (rec idx c m0) as [c' m']; exact H end.
  - match goal with |- context[dec_repeated_message F num ?fn st ?v] =>
      assert (Hfn : sticky_fn fn);
      [|pose proof (repmsg_sticky_any num fn Hfn F st v He) as H; destruct (dec_repeated_message F num fn st v) as [st' x]; exact H] end.
    intros c l Hc. pose proof (loop_sticky (rec idx) (rec_sticky idx) F c (zero_msgv progs idx) Hc) as H. destruct (Dec.loop F (rec idx) c _) as [c' m']. exact H.
  - pose proof (single_sticky KInt32 num st (slot_get (fst t) slot) He) as H. destruct (dec_single KInt32 num st _) as [st' x]. exact H.
  - unfold dec_repeated_enum. pose proof (repeated_sticky_any KInt32 num F st (as_list (slot_get (fst t) slot)) He) as H. destruct (dec_repeated F KInt32 num st _) as [st' l]. exact H.
  - destruct rep, ptr.
    + match goal with |- context[while_pending F num ?stp st ?l0] =>
        assert (S3 : forall st1 l1, err st1 <> None -> err (fst (stp st1 l1)) <> None);
        [|pose proof (while_sticky_any num stp S3 F st l0 He) as H; destruct (while_pending F num stp st l0) as [st' x]; exact H] end.
      intros st1 l1 H1. pose proof (cast_elem_sticky_any c num st1 (cast_zero c) H1) as H. destruct (dec_cast_elem F c num st1 (cast_zero c)). exact H.
    + match goal with |- context[while_pending F num ?stp st ?l0] =>
        assert (S3 : forall st1 l1, err st1 <> None -> err (fst (stp st1 l1)) <> None);
        [|pose proof (while_sticky_any num stp S3 F st l0 He) as H; destruct (while_pending F num stp st l0) as [st' x]; exact H] end.
      intros st1 l1 H1. pose proof (cast_elem_sticky_any c num st1 (cast_zero c) H1) as H. destruct (dec_cast_elem F c num st1 (cast_zero c)). exact H.
    + destruct (pf st =? num); [|exact He].
      match goal with |- context[dec_cast_elem F c num st ?v] => pose proof (cast_elem_sticky_any c num st v He) as H; destruct (dec_cast_elem F c num st v) as [st' x]; exact H end.
    + match goal with |- context[dec_cast_elem F c num st ?v] => pose proof (cast_elem_sticky_any c num st v He) as H; destruct (dec_cast_elem F c num st v) as [st' x]; exact H end.
  - apply fail_err.
  - destruct (pf st =? num); [|exact He].
    destruct op; cbn [fst]; try apply fail_err.
    + match goal with |- context[dec_single k num st ?v] => pose proof (single_sticky k num st v He) as H; destruct (dec_single k num st v) as [st' x]; exact H end.
    + match goal with |- context[dec_message F num ?fn st ?v] =>
        assert (Hfn : sticky_fn fn);
        [|pose proof (message_sticky F num fn Hfn st v He) as H; destruct (dec_message F num fn st v) as [st' x]; exact H] end.
      intros c v Hc. cbv beta zeta. match goal with |- context[rec idx c ?m0] => pose proof (rec_sticky idx c m0 Hc) as H; destruct (rec idx c m0) as [c' m']; exact H end.
    + match goal with |- context[dec_message F num ?fn st ?v] =>
        assert (Hfn : sticky_fn fn);
        [|pose proof (message_sticky F num fn Hfn st v He) as H; destruct (dec_message F num fn st v) as [st' x]; exact H] end.
      intros c v Hc. cbv beta zeta. match goal with |- context[rec idx c ?m0] => pose proof (rec_sticky idx c m0 Hc) as H; destruct (rec idx c m0) as [c' m']; exact H end.
    + match goal with |- context[dec_single KInt32 num st ?v] => pose proof (single_sticky KInt32 num st v He) as H; destruct (dec_single KInt32 num st v) as [st' x]; exact H end.
    + match goal with |- context[dec_cast_elem F c num st ?v] => pose proof (cast_elem_sticky_any c num st v He) as H; destruct (dec_cast_elem F c num st v) as [st' x]; exact H end.
  - destruct (unrec_facts mask F st (snd t)) as [_ [_ [I3 _]]]. destruct (dec_unrecognized F mask st (snd t)) as [st' out]. exact (I3 He).
Qed.
End StickyAny.

(* dec.err is never cleared by any Decode method, of any program list *)
Lemma dec_msg_sticky_any progs F : forall fuel idx, sticky_fn (dec_msg fuel progs F idx).
Proof.
  induction fuel as [|fuel IH]; intros idx st t He; [apply fail_err|]. cbn [dec_msg].
  destruct (nth_error progs idx) as [p|]; [|apply fail_err].
  unfold dec_body. revert st t He. induction (p_dec p) as [|op ops IHo]; intros st t He; [exact He|]. cbn [fold_left fst snd].
  pose proof (dec_op_sticky_any progs F (dec_msg fuel progs F) IH op st t He) as H1.
  destruct (dec_op progs F (dec_msg fuel progs F) op st t) as [st1 t1]. apply IHo, H1.
Qed.
