(* Facts about the generator model (C08, C12). *)
From Coq Require Import List ZArith Lia Bool.
From Pico Require Import Base.Res Base.Mach Wire.Wire Schema.Types Schema.Scalar Schema.Gen.
Import ListNotations.
Open Scope Z_scope.

(* every presence-carrying scalar (pointer or oneof member) is written by an Always writer *)
Theorem gen_always_ok s slot f k always rep ptr sl num :
  gen_field_encode s slot f = GOk (EScalar k always rep ptr sl num) -> ptr = true -> always = true.
Proof.
  unfold gen_field_encode. destruct (i_kind (field_info s f)); try discriminate;
    try (destruct (i_oneof (field_info s f)); discriminate).
  - destruct (i_repeated (field_info s f) && i_pointer (field_info s f)); [discriminate|].
    destruct (i_oneof (field_info s f)); [discriminate|].
    intros H; injection H as <- <- <- <- <- <-. intros Hp. rewrite Hp. reflexivity.
  - destruct (i_oneof (field_info s f)); destruct (i_pointer (field_info s f)), (i_repeated (field_info s f)); discriminate.
  - destruct (i_pointer (field_info s f)); [discriminate|].
    destruct (i_oneof (field_info s f)); destruct (i_repeated (field_info s f)); discriminate.
Qed.

Theorem gen_oneof_always s slot f sl k always rep ptr sl2 num :
  gen_field_encode s slot f = GOk (EOneof sl (EScalar k always rep ptr sl2 num)) -> always = true.
Proof.
  unfold gen_field_encode. destruct (i_kind (field_info s f)); try discriminate;
    try (destruct (i_oneof (field_info s f)); discriminate).
  - destruct (i_repeated (field_info s f) && i_pointer (field_info s f)); [discriminate|].
    destruct (i_oneof (field_info s f)) eqn:E; [|discriminate].
    intros H; injection H as _ <- <- <- <- <- <-. reflexivity.
  - destruct (i_oneof (field_info s f)); destruct (i_pointer (field_info s f)), (i_repeated (field_info s f)); discriminate.
  - destruct (i_pointer (field_info s f)); [discriminate|].
    destruct (i_oneof (field_info s f)); destruct (i_repeated (field_info s f)); discriminate.
Qed.

Theorem gen_oneof_enum_always s slot f sl always sl2 num :
  gen_field_encode s slot f = GOk (EOneof sl (EEnum always sl2 num)) -> always = true.
Proof.
  unfold gen_field_encode. destruct (i_kind (field_info s f)); try discriminate;
    try (destruct (i_oneof (field_info s f)); discriminate).
  - destruct (i_repeated (field_info s f) && i_pointer (field_info s f)); [discriminate|].
    destruct (i_oneof (field_info s f)); discriminate.
  - destruct (i_oneof (field_info s f)); destruct (i_pointer (field_info s f)), (i_repeated (field_info s f)); discriminate.
  - destruct (i_pointer (field_info s f)); [discriminate|].
    destruct (i_oneof (field_info s f)) eqn:E; destruct (i_repeated (field_info s f)); try discriminate.
    intros H; injection H as _ <- _ _. reflexivity.
Qed.

(* the declared feature boundary: an optional enum is rejected, not miscompiled *)
Theorem gen_optional_enum_rejected s slot f :
  fty f = TEnum -> flabel f = LOptional -> foneof f = None -> f_always_present f = false -> f_custom f = CNone ->
  gen_field_encode s slot f = GError 1.
Proof.
  intros Ht Hl Ho Ha Hc. unfold gen_field_encode, field_info. rewrite Ht, Hl, Ho, Ha, Hc. cbn. reflexivity.
Qed.

(* a oneof member is never written by the writer that omits an empty message (PresentMessage): a by-value message
   member goes through AlwaysMessage, so that the selection survives an empty member (the repair of D14) *)
Theorem gen_oneof_never_present s slot f sl sl2 num idx :
  gen_field_encode s slot f <> GOk (EOneof sl (EMsgPresent sl2 num idx)).
Proof.
  unfold gen_field_encode. destruct (i_kind (field_info s f)); try discriminate;
    try (destruct (i_oneof (field_info s f)); discriminate).
  - destruct (i_repeated (field_info s f) && i_pointer (field_info s f)); [discriminate|].
    destruct (i_oneof (field_info s f)); discriminate.
  - destruct (i_oneof (field_info s f)); destruct (i_pointer (field_info s f)), (i_repeated (field_info s f)); discriminate.
  - destruct (i_pointer (field_info s f)); [discriminate|].
    destruct (i_oneof (field_info s f)); destruct (i_repeated (field_info s f)); discriminate.
Qed.
