(* C06: the reference encoding (= Marshal's output, by T_enc) is a sequence of complete records whose field numbers
   ascend; the captured unrecognized fields come last. *)
From Coq Require Import List ZArith Lia Bool Arith Sorted.
From Pico Require Import Base.Res Base.ListX Base.Mach Wire.Wire Schema.Types Schema.Scalar Schema.Gen Schema.Conv Schema.Interp Ref.Ref
  Dec.Dec Dec.SafetyProofs Dec.LoopInst Dec.TokenBridge Dec.TokenApp Dec.StreamLoop Schema.ScalarProofs Schema.Norm Schema.TDec Schema.Concat Schema.Fuel
  Schema.EncSpec Schema.EncProgProofs Schema.TEnc Schema.RoundTrip.
Import ListNotations.
Open Scope Z_scope.

(* ---------------------------------------------------------------- sort_by_num sorts *)
Definition num_le (p q : nat * fdesc) : Prop := fnum (snd p) <= fnum (snd q).

Lemma insert_by_num_sorted x l : StronglySorted num_le l -> StronglySorted num_le (insert_by_num x l).
Proof.
  induction 1 as [|y l Hs IH Hall]; cbn [insert_by_num]; [repeat constructor|].
  destruct (Z.ltb_spec (fnum (snd x)) (fnum (snd y))) as [Hlt|Hge].
  - constructor; [constructor; assumption|]. constructor; [unfold num_le; lia|].
    rewrite Forall_forall in *. intros z Hz. specialize (Hall z Hz). unfold num_le in *. lia.
  - constructor; [exact IH|]. rewrite Forall_forall in *. intros z Hz.
    apply (Permutation.Permutation_in _ (insert_by_num_perm x l)) in Hz. destruct Hz as [<-|Hz]; [unfold num_le; lia|apply Hall, Hz].
Qed.
Lemma sort_by_num_sorted l : StronglySorted num_le (sort_by_num l).
Proof. induction l as [|x l IH]; cbn [sort_by_num fold_right]; [constructor|apply insert_by_num_sorted, IH]. Qed.

(* ---------------------------------------------------------------- chunks of records *)
(* a byte string that is a run of complete records, all of field number num *)
Definition run_of (num : Z) (b : bytes) : Prop :=
  bytes_ok b /\ exists ts, tokens b = Some ts /\ Forall (fun t => t_num t = num) ts.

Lemma run_nil num : run_of num [].
Proof. split; [constructor|]. exists []. split; [apply tokens_nil|constructor]. Qed.
Lemma run_app num a b : run_of num a -> run_of num b -> run_of num (a ++ b).
Proof.
  intros [Ha [ta [Ta Fa]]] [Hb [tb [Tb Fb]]]. split; [apply bytes_ok_app; assumption|].
  exists (ta ++ tb). split; [rewrite (tokens_app a b ta Ha Ta), Tb; reflexivity|apply Forall_app; split; assumption].
Qed.
Lemma run_flat_map {A} num (g : A -> bytes) l : (forall x, In x l -> run_of num (g x)) -> run_of num (flat_map g l).
Proof.
  induction l as [|x l IH]; intros H; cbn [flat_map]; [apply run_nil|].
  apply run_app; [apply H; left; reflexivity|apply IH; intros y Hy; apply H; right; exact Hy].
Qed.

Lemma run_ld num payload : valid_number num = true -> bytes_ok payload -> lenb payload = true -> run_of num (spec_ld num payload).
Proof.
  intros Hv Hb Hl.
  assert (Hvn : 0 <= num) by (unfold valid_number in Hv; apply andb_true_iff in Hv; destruct Hv as [H1 _]; apply Z.leb_le in H1; lia).
  split; [apply spec_ld_bytes_ok; assumption|].
  pose proof (ld_token num payload [] Hv Hb Hl ltac:(constructor)) as Ep. rewrite app_nil_r in Ep.
  eexists. split; [apply (tokens_single _ _ (spec_ld_nonempty _ _) Ep)|]. constructor; [reflexivity|constructor].
Qed.
Lemma run_field k num v : valid_number num = true -> scalar_ok k v = true -> run_of num (spec_field k num v).
Proof.
  intros Hv Hok.
  assert (Hvn : 0 <= num) by (unfold valid_number in Hv; apply andb_true_iff in Hv; destruct Hv as [H1 _]; apply Z.leb_le in H1; lia).
  split.
  - unfold spec_field. apply bytes_ok_app; [apply spec_tag_bytes_ok; [exact Hvn|pose proof (wire_of_range k); lia]|apply spec_payload_bytes_ok, Hok].
  - destruct (field_token k num v [] Hv Hok ltac:(constructor)) as [p [n [Ep [En _]]]]. rewrite app_nil_r in Ep. subst n.
    eexists. split; [apply (tokens_single _ _ (spec_field_nonempty k num v) Ep)|]. constructor; [reflexivity|constructor].
Qed.

(* ---------------------------------------------------------------- every slot writes a run of its own number *)
Section Slot.
Variables (s : schema) (sub : nat -> list val -> bytes -> bool) (enc : nat -> list val -> bytes -> bytes).

Lemma slot_run f v : valid_number (fnum f) = true ->
  (forall j, fty f = TMsg j -> forall fs1 u1, sub j fs1 u1 = true -> bytes_ok (enc j fs1 u1)) ->
  slot_rt_ok s sub enc f v = true -> run_of (fnum f) (ref_slot enc f v).
Proof.
  intros Hv Hsub0 Hok. unfold slot_rt_ok in Hok. unfold ref_slot.
  destruct (f_custom f) eqn:Hc; try discriminate Hok.
  - destruct (fty f) as [k| |j|kk vk|] eqn:Ht; try discriminate Hok.
    + (* scalar *)
      cbn [kind_of_ftype]. unfold scalar_slot_ok in Hok. unfold ref_scalar_slot.
      destruct (i_repeated (field_info s f)).
      * destruct v as [| | |l| | | | |]; try discriminate Hok. apply andb_true_iff in Hok. destruct Hok as [Hall Hlen].
        destruct (is_bytes_kind k).
        -- apply run_flat_map. intros x Hx. apply run_field; [exact Hv|exact (forallb_In _ _ _ Hall Hx)].
        -- destruct l as [|x l]; [apply run_nil|]. apply run_ld; [exact Hv| |exact Hlen].
           apply flat_map_bytes_ok. intros y Hy. apply spec_payload_bytes_ok. exact (forallb_In _ _ _ Hall Hy).
      * destruct (i_oneof (field_info s f) || i_pointer (field_info s f)).
        -- destruct v as [| |[x|]| | | | | |]; try discriminate Hok; [apply run_field; assumption|apply run_nil].
        -- destruct v as [z|b|o|l|o|fs1 u1|l|a b|d]; try (destruct k; discriminate Hok);
             (destruct (spec_default k _); [apply run_nil|apply run_field; assumption]).
    + (* enum *)
      cbn [kind_of_ftype]. apply andb_true_iff in Hok. destruct Hok as [_ Hok]. unfold scalar_slot_ok in Hok. unfold ref_scalar_slot.
      destruct (i_repeated (field_info s f)).
      * destruct v as [| | |l| | | | |]; try discriminate Hok. apply andb_true_iff in Hok. destruct Hok as [Hall Hlen]. cbn [is_bytes_kind].
        destruct l as [|x l]; [apply run_nil|]. apply run_ld; [exact Hv| |exact Hlen].
        apply flat_map_bytes_ok. intros y Hy. apply spec_payload_bytes_ok. exact (forallb_In _ _ _ Hall Hy).
      * destruct (i_oneof (field_info s f) || i_pointer (field_info s f)).
        -- destruct v as [| |[x|]| | | | | |]; try discriminate Hok; [apply run_field; assumption|apply run_nil].
        -- destruct v as [z|b|o|l|o|fs1 u1|l|a b|d]; try discriminate Hok.
           destruct (spec_default KInt32 _); [apply run_nil|apply run_field; assumption].
    + (* message *)
      pose proof (Hsub0 j eq_refl) as Hsub.
      unfold msg_slot_ok in Hok. unfold ref_msg_slot.
      assert (Hel : forall x, msg_elem_ok s sub enc f j x = true ->
                match x with
                | VMsg (Some (fs1, u1)) | VEmb fs1 u1 | VOpt (Some (VEmb fs1 u1)) => bytes_ok (enc j fs1 u1) /\ lenb (enc j fs1 u1) = true
                | _ => True end).
      { intros x Hx. unfold msg_elem_ok in Hx. destruct x as [| |[[]|]| |[[fs1 u1]|]|fs1 u1| | |]; try exact I;
          repeat (apply andb_true_iff in Hx; let H := fresh "H" in destruct Hx as [Hx H]); split; try assumption; apply Hsub; assumption. }
      destruct (i_repeated (field_info s f)).
      * destruct v as [| | |l| | | | |]; try discriminate Hok. apply run_flat_map. intros x Hx.
        pose proof (Hel x (forallb_In _ _ _ Hok Hx)) as Hx'. pose proof (forallb_In _ _ _ Hok Hx) as Hxo. unfold msg_elem_ok in Hxo.
        destruct x as [| |[[]|]| |[[fs1 u1]|]|fs1 u1| | |]; try discriminate Hxo; cbn [ref_msg_elem]; try apply run_nil;
          try (destruct Hx' as [B L]; apply run_ld; assumption); apply run_ld; [exact Hv|constructor|reflexivity].
      * pose proof (Hel v Hok) as Hv'. unfold msg_elem_ok in Hok.
        destruct v as [| |[[]|]| |[[fs1 u1]|]|fs1 u1| | |]; try discriminate Hok; try apply run_nil.
        -- destruct Hv' as [B L]. apply run_ld; assumption.
        -- destruct Hv' as [B L]. apply run_ld; assumption.
        -- destruct Hv' as [B L]. cbv zeta. destruct (enc j fs1 u1) eqn:E; [apply run_nil|rewrite <- E; apply run_ld; [exact Hv|rewrite E; exact B|rewrite E; exact L]].
    + (* map *)
      unfold map_slot_ok in Hok. destruct v as [| | | | | |l| |]; try discriminate Hok. apply andb_true_iff in Hok. destruct Hok as [Hall _].
      unfold ref_map_slot. apply run_flat_map. intros e He. pose proof (forallb_In _ _ _ Hall He) as H.
      apply andb_true_iff in H. destruct H as [H Hl]. apply andb_true_iff in H. destruct H as [Hk Hvv].
      destruct e as [k0 v0]. destruct (entry_rt kk vk k0 v0 Hk Hvv) as [Hb _]. apply run_ld; [exact Hv|exact Hb|exact Hl].
  - (* Timestamp *)
    assert (Hok' : cast_slot_ok s f v = true) by (destruct (fty f); exact Hok).
    assert (Hel : forall x, cast_elem_ok (cast_of f) x = true -> run_of (fnum f) (ref_cast_elem (fnum f) x)).
    { intros x Hx. destruct (cast_elem_rt f (fnum f) x (or_introl Hc) Hx) as [[E _]|[_ [p [E [B [L _]]]]]]; rewrite E; [apply run_nil|apply run_ld; assumption]. }
    assert (Hopt : forall x, cast_opt_ok (cast_of f) x = true -> run_of (fnum f) (match x with VOpt (Some y) => ref_cast_elem (fnum f) y | VOpt None => [] | y => ref_cast_elem (fnum f) y end)).
    { intros x Hx. unfold cast_opt_ok in Hx. destruct x as [| |[y|]| | | | | |]; try discriminate Hx; [apply Hel, Hx|apply run_nil]. }
    replace (match fty f with _ => ref_cast_slot (fnum f) v end) with (ref_cast_slot (fnum f) v) by (destruct (fty f); reflexivity).
    unfold cast_slot_ok in Hok'. unfold ref_cast_slot.
    destruct (i_repeated (field_info s f)).
    + destruct v as [| | |l| | | | |]; try discriminate Hok'. apply run_flat_map. intros x Hx. pose proof (forallb_In _ _ _ Hok' Hx) as H.
      destruct (i_pointer (field_info s f)); [apply Hopt, H|].
      pose proof (Hel x H) as R. unfold cast_of in H. rewrite Hc in H. destruct x; try discriminate H; exact R.
    + destruct (i_oneof (field_info s f) || i_pointer (field_info s f)).
      * pose proof (Hopt v Hok') as R. unfold cast_opt_ok in Hok'. destruct v as [| |[y|]| | | | | |]; try discriminate Hok'; exact R.
      * pose proof (Hel v Hok') as R. unfold cast_of in Hok'. rewrite Hc in Hok'. destruct v; try discriminate Hok'; exact R.
  - (* Duration *)
    assert (Hok' : cast_slot_ok s f v = true) by (destruct (fty f); exact Hok).
    assert (Hel : forall x, cast_elem_ok (cast_of f) x = true -> run_of (fnum f) (ref_cast_elem (fnum f) x)).
    { intros x Hx. destruct (cast_elem_rt f (fnum f) x (or_intror Hc) Hx) as [[E _]|[_ [p [E [B [L _]]]]]]; rewrite E; [apply run_nil|apply run_ld; assumption]. }
    assert (Hopt : forall x, cast_opt_ok (cast_of f) x = true -> run_of (fnum f) (match x with VOpt (Some y) => ref_cast_elem (fnum f) y | VOpt None => [] | y => ref_cast_elem (fnum f) y end)).
    { intros x Hx. unfold cast_opt_ok in Hx. destruct x as [| |[y|]| | | | | |]; try discriminate Hx; [apply Hel, Hx|apply run_nil]. }
    replace (match fty f with _ => ref_cast_slot (fnum f) v end) with (ref_cast_slot (fnum f) v) by (destruct (fty f); reflexivity).
    unfold cast_slot_ok in Hok'. unfold ref_cast_slot.
    destruct (i_repeated (field_info s f)).
    + destruct v as [| | |l| | | | |]; try discriminate Hok'. apply run_flat_map. intros x Hx. pose proof (forallb_In _ _ _ Hok' Hx) as H.
      destruct (i_pointer (field_info s f)); [apply Hopt, H|].
      pose proof (Hel x H) as R. unfold cast_of in H. rewrite Hc in H. destruct x; try discriminate H; exact R.
    + destruct (i_oneof (field_info s f) || i_pointer (field_info s f)).
      * pose proof (Hopt v Hok') as R. unfold cast_opt_ok in Hok'. destruct v as [| |[y|]| | | | | |]; try discriminate Hok'; exact R.
      * pose proof (Hel v Hok') as R. unfold cast_of in Hok'. rewrite Hc in Hok'. destruct v; try discriminate Hok'; exact R.
Qed.
End Slot.

(* ---------------------------------------------------------------- the whole message *)
Lemma StronglySorted_app {A} (R : A -> A -> Prop) a b : StronglySorted R a -> StronglySorted R b ->
  (forall x y, In x a -> In y b -> R x y) -> StronglySorted R (a ++ b).
Proof.
  induction 1 as [|x a Hs IH Hall]; intros Hb Hab; [exact Hb|]. cbn [app]. constructor.
  - apply IH; [exact Hb|intros u v Hu Hv; apply Hab; [right; exact Hu|exact Hv]].
  - apply Forall_app. split; [exact Hall|]. rewrite Forall_forall. intros y Hy. apply Hab; [left; reflexivity|exact Hy].
Qed.

Lemma runs_sorted (g : nat * fdesc -> bytes) l : StronglySorted num_le l -> (forall p, In p l -> run_of (fnum (snd p)) (g p)) ->
  bytes_ok (flat_map g l) /\ exists ts, tokens (flat_map g l) = Some ts /\ StronglySorted Z.le (map t_num ts) /\
                                    Forall (fun t => exists p, In p l /\ t_num t = fnum (snd p)) ts.
Proof.
  induction 1 as [|x l Hs IH Hall]; intros Hrun; cbn [flat_map].
  - split; [constructor|]. exists []. split; [apply tokens_nil|]. split; constructor.
  - destruct (Hrun x ltac:(left; reflexivity)) as [Bx [tx [Tx Fx]]].
    destruct (IH ltac:(intros p Hp; apply Hrun; right; exact Hp)) as [Bl [tl [Tl [Sl Fl]]]].
    split; [apply bytes_ok_app; assumption|]. exists (tx ++ tl). split; [rewrite (tokens_app _ _ tx Bx Tx), Tl; reflexivity|]. split.
    + rewrite map_app. apply StronglySorted_app; [| exact Sl |].
      * clear Tx. induction tx as [|t tx IHt]; cbn [map]; [constructor|]. inversion Fx as [|? ? E Fx']; subst. constructor; [apply IHt, Fx'|].
        rewrite Forall_forall. intros y Hy. apply in_map_iff in Hy. destruct Hy as [t' [<- Ht']]. rewrite Forall_forall in Fx'. rewrite E, (Fx' t' Ht'). lia.
      * intros a b Ha Hb. apply in_map_iff in Ha. destruct Ha as [ta [<- Hta]]. apply in_map_iff in Hb. destruct Hb as [tb [<- Htb]].
        rewrite Forall_forall in Fx, Fl, Hall. rewrite (Fx ta Hta). destruct (Fl tb Htb) as [q [Hq ->]]. exact (Hall q Hq).
    + apply Forall_app. split.
      * rewrite Forall_forall in *. intros t Ht. exists x. split; [left; reflexivity|apply Fx, Ht].
      * rewrite Forall_forall in *. intros t Ht. destruct (Fl t Ht) as [q [Hq E]]. exists q. split; [right; exact Hq|exact E].
Qed.

(* C06: the encoding of a message is a run of complete records of its known fields in ascending field-number order, followed
   (for a capturing message) by the captured unrecognized fields *)
Theorem encode_ascending s g idx fs un m : rt_applies_at s idx = true -> nth_error s idx = Some m -> rt_ok g s idx fs un = true ->
  exists tk tu, tokens (ref_encode g s idx fs un) = Some (tk ++ tu) /\
    StronglySorted Z.le (map t_num tk) /\ Forall (fun t => find_field m (t_num t) <> None) tk /\
    tokens (if m_capture m then un else []) = Some tu /\ Forall (fun t => find_field m (t_num t) = None) tu.
Proof.
  intros Happ Hm Hok. destruct g as [|g]; [discriminate Hok|]. cbn [rt_ok ref_encode] in *. rewrite Hm in *.
  apply andb_true_iff in Hok. destruct Hok as [Hok Hun]. apply andb_true_iff in Hok. destruct Hok as [Hok _]. apply andb_true_iff in Hok. destruct Hok as [_ Hslots].
  unfold rt_applies_at in Happ. apply andb_true_iff in Happ. destruct Happ as [Happ Hi]. apply andb_true_iff in Happ. destruct Happ as [Happ Hz].
  destruct (tdec_applies_at_spec s idx Happ) as [Hg Hgi].
  destruct (Hg idx m Hgi Hm) as [[Hnd Hf] [_ Hcl]].
  set (sorted := sort_by_num (number_from 0 (mfields m))).
  assert (Hruns : forall p, In p sorted -> run_of (fnum (snd p)) (ref_slot (ref_encode g s) (snd p) (nth (fst p) fs (VInt 0)))).
  { intros p Hp. pose proof (sort_by_num_In _ _ Hp) as Hq. pose proof (number_from_In _ _ _ (eq_ind _ (fun z => In z _) Hq _ (surjective_pairing p))) as Hfin.
    destruct (Hf (snd p) Hfin) as [Hv _]. apply (slot_run s (rt_ok g s) (ref_encode g s) (snd p) _ Hv).
    - intros j Ht fs1 u1 H1. destruct (rt_ok_idx s g j fs1 u1 H1) as [mj Emj].
      destruct (ref_round_trip_all s _ Hg (zero_stable_b_spec s Hz) (msg_idx_ok_b_spec s Hi) g j fs1 u1 mj g (Hcl (snd p) j Hfin Ht) Emj H1 (le_n g)) as [Hb _]. exact Hb.
    - rewrite forallb_forall in Hslots. apply Hslots, Hq. }
  destruct (runs_sorted (fun p => ref_slot (ref_encode g s) (snd p) (nth (fst p) fs (VInt 0))) sorted (sort_by_num_sorted _) Hruns) as [Bk [tk [Tk [Sk Fk]]]].
  assert (Hu : exists tu, tokens (if m_capture m then un else []) = Some tu /\ Forall (fun t => find_field m (t_num t) = None) tu).
  { unfold un_ok in Hun. destruct (m_capture m).
    - apply andb_true_iff in Hun. destruct Hun as [_ Hun]. destruct (tokens un) as [tu|]; [|discriminate Hun]. exists tu. split; [reflexivity|].
      apply andb_true_iff in Hun. destruct Hun as [Hun _]. rewrite forallb_forall in Hun. rewrite Forall_forall. intros t Ht. specialize (Hun t Ht).
      destruct (find_field m (t_num t)); [discriminate Hun|reflexivity].
    - exists []. split; [apply tokens_nil|constructor]. }
  destruct Hu as [tu [Tu Fu]]. exists tk, tu. split; [|split; [exact Sk|split; [|split; [exact Tu|exact Fu]]]].
  - fold sorted. rewrite (tokens_app _ _ tk Bk Tk).
    match goal with |- match ?x with _ => _ end = _ => replace x with (Some tu) by (symmetry; exact Tu) end. reflexivity.
  - rewrite Forall_forall in *. intros t Ht. destruct (Fk t Ht) as [p [Hp E]]. rewrite E.
    pose proof (sort_by_num_In _ _ Hp) as Hq. destruct p as [slot f]. cbn [snd]. rewrite (find_field_known m Hnd slot f Hq). discriminate.
Qed.

(* ... and so is Marshal's output (T_enc) *)
Theorem marshal_ascending s progs fuel idx fs un m :
  gen_all s = GOk progs -> wf_schema_enc s = true -> rt_applies_at s idx = true -> nth_error s idx = Some m ->
  msg_ok fuel progs idx (Some (fs, un)) = true -> rt_ok fuel s idx fs un = true ->
  exists data tk tu, pico_marshal fuel progs idx (fs, un) = Ok data /\ tokens data = Some (tk ++ tu) /\
    StronglySorted Z.le (map t_num tk) /\ Forall (fun t => find_field m (t_num t) <> None) tk /\
    tokens (if m_capture m then un else []) = Some tu /\ Forall (fun t => find_field m (t_num t) = None) tu.
Proof.
  intros Hgen Hwe Happ Hm Hmok Hrt. destruct (encode_ascending s fuel idx fs un m Happ Hm Hrt) as [tk [tu H]].
  exists (ref_encode fuel s idx fs un), tk, tu. split; [apply T_enc; assumption|exact H].
Qed.
