(* The `types` table of internal/generatecoder/main.go as the scalar model (Schema/Scalar.v:
   wire_of, enc_tr, dec_tr, is_default) mirrors it: name, zero value, wire type, Append/Consume
   suffix, EncodeFmt, DecodeFmt. gen/TypesTable.v (regenerated from the source on every run) must
   equal this table; a changed format string breaks that obligation. *)
From Coq Require Import List String.
Import ListNotations.
Open Scope string_scope.

Definition expected_types_table : list (string * string * string * string * string * string) :=
  [("Bool", "bool(false)", "VarintType", "Varint", "encodeBool64(%s)", "%s != 0");
  ("Int32", "int32(0)", "VarintType", "Varint", "uint64(%s)", "int32(%s)");
  ("Int64", "int64(0)", "VarintType", "Varint", "uint64(%s)", "int64(%s)");
  ("Uint32", "uint32(0)", "VarintType", "Varint", "uint64(%s)", "uint32(%s)");
  ("Uint64", "uint64(0)", "VarintType", "Varint", "%s", "%s");
  ("Sint32", "int32(0)", "VarintType", "Varint", "uint64(encodeZigZag32(%s))", "decodeZigZag32(uint32(%s))");
  ("Sint64", "int64(0)", "VarintType", "Varint", "protowire.EncodeZigZag(%s)", "protowire.DecodeZigZag(%s)");
  ("Fixed32", "uint32(0)", "Fixed32Type", "Fixed32", "%s", "%s");
  ("Fixed64", "uint64(0)", "Fixed64Type", "Fixed64", "%s", "%s");
  ("Sfixed32", "int32(0)", "Fixed32Type", "Fixed32", "uint32(%s)", "int32(%s)");
  ("Sfixed64", "int64(0)", "Fixed64Type", "Fixed64", "uint64(%s)", "int64(%s)");
  ("Float", "float32(0)", "Fixed32Type", "Fixed32", "math.Float32bits(%s)", "math.Float32frombits(%s)");
  ("Double", "float64(0)", "Fixed64Type", "Fixed64", "math.Float64bits(%s)", "math.Float64frombits(%s)");
  ("String", "string('')", "BytesType", "String", "%s", "%s");
  ("Bytes", "[]byte{}", "BytesType", "Bytes", "%s", "%s")].
