(* The reference decoder reads the reference encoding back: ref_decode (ref_encode v) = norm v.
   With T_enc and T_dec this is C03 (and the decoding half of C01, C08, C11) for Unmarshal(Marshal(m)). *)
From Coq Require Import List ZArith Lia Bool Arith Sorting.Permutation.
From Pico Require Import Base.Res Base.ListX Base.Mach Wire.Wire Schema.Types Schema.Scalar Schema.Gen Schema.Conv Schema.Interp Schema.Norm Ref.Ref
  Wire.VarintProofs Wire.WireProofs Wire.FixedProofs Schema.ScalarProofs Dec.Dec Dec.SafetyProofs Dec.TokenBridge Dec.TokenApp Dec.StreamLoop Dec.ReaderBridge
  Schema.EncSpec Schema.ConvProofs Dec.ReaderProofs Dec.LoopInst Schema.TEnc Schema.TDec Schema.Concat Schema.Fuel.
Import ListNotations.
Open Scope Z_scope.

(* ---------------------------------------------------------------- bytes written are bytes *)
Lemma spec_varint_bytes_ok v : 0 <= v -> bytes_ok (spec_varint v).
Proof. intros H. apply varint7_bytes_ok. exact H. Qed.
Lemma le_bytes_bytes_ok n v : bytes_ok (le_bytes n v).
Proof. apply le_bytes_ok. Qed.

Lemma scalar_ok_bytes k b : scalar_ok k (VBytes b) = true -> bytes_ok b.
Proof.
  intros H. destruct k; try discriminate H; cbn in H; apply andb_true_iff in H; destruct H as [H _];
    rewrite forallb_forall in H; apply Forall_forall; intros y Hy; specialize (H y Hy); unfold byte_ok in H;
    apply andb_true_iff in H; destruct H as [H1 H2]; apply Z.leb_le in H1; apply Z.ltb_lt in H2; lia.
Qed.

Lemma spec_payload_bytes_ok k v : scalar_ok k v = true -> bytes_ok (spec_payload k v).
Proof.
  intros H. rewrite <- (enc_payload_spec k v H).
  destruct v as [z|b| | | | | | |]; try (destruct k; discriminate H).
  - pose proof (enc_tr_range k z H) as R. unfold enc_payload. cbn [as_int].
    destruct k; try discriminate H; cbn [wire_of] in *; unfold VarintType, Fixed32Type, Fixed64Type in *;
      first [rewrite append_varint_spec by exact R; apply spec_varint_bytes_ok; destruct R; assumption
            |rewrite append_fixed32_spec; apply le_bytes_bytes_ok
            |rewrite append_fixed64_spec; apply le_bytes_bytes_ok].
  - assert (Hb : is_bytes_kind k = true) by (destruct k; try discriminate H; reflexivity).
    pose proof (bytes_len_ok k b Hb H) as L. unfold enc_payload. cbn [as_bytes].
    assert (E : append_bytes b = spec_varint (Z.of_nat (length b)) ++ b) by (unfold append_bytes; rewrite append_varint_spec by exact L; reflexivity).
    destruct k; try discriminate Hb; cbn [wire_of]; unfold BytesType; rewrite E;
      (apply bytes_ok_app; [apply spec_varint_bytes_ok; lia|apply (scalar_ok_bytes _ _ H)]).
Qed.

Lemma spec_tag_bytes_ok num wt : 0 <= num -> 0 <= wt -> bytes_ok (spec_tag num wt).
Proof. intros. apply spec_varint_bytes_ok. lia. Qed.

(* ---------------------------------------------------------------- one written field is one token *)
Lemma tag_parse num wt rest : valid_number num = true -> 0 <= wt < 8 ->
  spec_parse_varint (spec_tag num wt ++ rest) = Some (num * 8 + wt, length (spec_tag num wt)) /\
  (num * 8 + wt) / 8 = num /\ (num * 8 + wt) mod 8 = wt.
Proof.
  intros Hv Hw. unfold valid_number, MaxValidNumber in Hv. apply andb_true_iff in Hv. destruct Hv as [H1 H2].
  apply Z.leb_le in H1. apply Z.leb_le in H2. change (2 ^ 29 - 1) with 536870911 in H2.
  split; [|split].
  - unfold spec_tag. apply spec_parse_spec_varint. unfold u64_ok. change (2 ^ 64) with 18446744073709551616. lia.
  - symmetry. apply Z.div_unique with wt; lia.
  - symmetry. apply Z.mod_unique with num; lia.
Qed.

Lemma valid_num_of_number num : valid_number num = true -> valid_num num = true.
Proof. intros H. exact H. Qed.

(* a scalar field written by the reference encoder parses as one token carrying the value *)
Lemma field_token k num v rest : valid_number num = true -> scalar_ok k v = true -> bytes_ok rest ->
  exists p n, parse_token (spec_field k num v ++ rest) = Some ({| t_num := num; t_wt := wire_of k; t_pay := p; t_raw := spec_payload k v |}, n) /\
              n = length (spec_field k num v) /\
              tok_scalar k {| t_num := num; t_wt := wire_of k; t_pay := p; t_raw := spec_payload k v |} = Some v.
Proof.
  intros Hv Hok Hr. unfold spec_field. rewrite <- app_assoc.
  destruct (tag_parse num (wire_of k) (spec_payload k v ++ rest) Hv (wire_of_range k)) as [Etag [Ediv Emod]].
  unfold parse_token. rewrite Etag, Ediv, Emod. rewrite (valid_num_of_number num Hv). cbn [negb].
  rewrite (skipn_app_l (spec_tag num (wire_of k)) (spec_payload k v ++ rest) _ eq_refl).
  pose proof (dec_payload_parse k num (spec_payload k v ++ rest) (bytes_ok_app _ _ (spec_payload_bytes_ok k v Hok) Hr)) as Hd.
  pose proof (dec_enc_payload k v rest Hok) as Hde. rewrite (enc_payload_spec k v Hok) in Hde.
  destruct (parse_value num (wire_of k) (spec_payload k v ++ rest)) as [[p kk]|].
  - destruct Hd as [x [Ht Ed]]. rewrite Hde in Ed. injection Ed as <- Ek. apply Nat2Z.inj in Ek. subst kk.
    rewrite (firstn_app_l (spec_payload k v) rest _ eq_refl) in *.
    exists p, (length (spec_tag num (wire_of k)) + length (spec_payload k v))%nat. split; [reflexivity|]. split; [rewrite app_length; reflexivity|exact Ht].
  - rewrite Hde in Hd. cbn [snd] in Hd. lia.
Qed.

(* a length-delimited record written by the reference encoder parses as one token carrying the payload *)
Lemma ld_token num payload rest : valid_number num = true -> bytes_ok payload -> lenb payload = true -> bytes_ok rest ->
  parse_token (spec_ld num payload ++ rest) =
  Some ({| t_num := num; t_wt := 2; t_pay := PBytes payload; t_raw := spec_varint (Z.of_nat (length payload)) ++ payload |}, length (spec_ld num payload)).
Proof.
  intros Hv Hp Hl Hr. unfold spec_ld. rewrite <- !app_assoc.
  destruct (tag_parse num 2 (spec_varint (Z.of_nat (length payload)) ++ payload ++ rest) Hv ltac:(lia)) as [Etag [Ediv Emod]].
  unfold parse_token. rewrite Etag, Ediv, Emod. rewrite (valid_num_of_number num Hv). cbn [negb].
  rewrite (skipn_app_l (spec_tag num 2) _ _ eq_refl). cbn [parse_value].
  assert (Hu : u64_ok (Z.of_nat (length payload))).
  { unfold lenb in Hl. apply Z.ltb_lt in Hl. unfold u64_ok. change (2 ^ 64) with 18446744073709551616. change (2 ^ 63) with 9223372036854775808 in Hl. lia. }
  rewrite (spec_parse_spec_varint _ (payload ++ rest) Hu).
  rewrite (skipn_app_l (spec_varint (Z.of_nat (length payload))) (payload ++ rest) _ eq_refl).
  rewrite has_len_z_spec, app_length. replace (Z.of_nat (length payload) <=? Z.of_nat (length payload + length rest)) with true by (symmetry; apply Z.leb_le; lia).
  cbn [negb]. rewrite Nat2Z.id. rewrite (firstn_app_l payload rest _ eq_refl).
  f_equal. f_equal.
  - f_equal. rewrite app_assoc. rewrite (firstn_app_l (spec_varint (Z.of_nat (length payload)) ++ payload) rest); [reflexivity|rewrite app_length; reflexivity].
  - rewrite !app_length. lia.
Qed.

(* ---------------------------------------------------------------- the per-slot normal form *)
Definition norm_slot (g : nat) (s : schema) (f : fdesc) (v : val) : val :=
  match f_custom f, fty f, v with
  | (CTimestamp | CDuration), _, VOpt (Some x) => if is_zero_time x then VOpt None else v
  | (CTimestamp | CDuration), _, VList l =>
      VList (filter (fun e => match e with
                              | VOpt None => false
                              | VOpt (Some x) => negb (is_zero_time x)
                              | x => negb (is_zero_time x)
                              end) l)
  | CNone, TMsg j, VMsg (Some (fs1, u)) => VMsg (Some (norm_fields g s j fs1, u))
  | CNone, TMsg j, VEmb fs1 u => VEmb (norm_fields g s j fs1) u
  | CNone, TMsg j, VOpt (Some x) =>
      match x with VEmb fs1 u => VOpt (Some (VEmb (norm_fields g s j fs1) u)) | _ => v end
  | CNone, TMsg j, VList l =>
      VList (map (fun e => match e with
                           | VMsg None => VMsg (Some (match nth_error s j with Some mj => zero_fields s mj | None => [] end, []))
                           | VMsg (Some (fs1, u)) => VMsg (Some (norm_fields g s j fs1, u))
                           | VEmb fs1 u => VEmb (norm_fields g s j fs1) u
                           | x => x
                           end) l)
  | _, _, _ => v
  end.

Lemma norm_fields_unfold g s idx fs m : nth_error s idx = Some m ->
  norm_fields (S g) s idx fs = map (fun p : val * fdesc => norm_slot g s (snd p) (fst p)) (combine fs (mfields m)).
Proof. intros E. cbn [norm_fields]. rewrite E. apply map_ext. intros [v f]. reflexivity. Qed.

(* ---------------------------------------------------------------- a message, field by field *)
Section MsgRT.
Variables (s : schema) (G : nat) (idx : nat) (m : mdesc).
Hypothesis Hm : nth_error s idx = Some m.
Hypothesis Hnd : NoDup (map fnum (mfields m)).

Definition unset (v : val) : Prop := v = VOpt None \/ v = VMsg None.

(* what decoding the bytes of one field must do, from a target whose slot is still blank *)
Definition field_rt (enc : fdesc -> val -> bytes) (nv : fdesc -> val -> val) (zero : fdesc -> val) (fs : list val) (p : nat * fdesc) : Prop :=
  forall t u, nth (fst p) t (VInt 0) = zero (snd p) ->
    (enc (snd p) (nth (fst p) fs (VInt 0)) <> [] ->
     forall q, In q (number_from 0 (mfields m)) -> In (fst q) (oneof_siblings m (snd p) (fst p)) -> unset (nth (fst q) t (VInt 0))) ->
    bytes_ok (enc (snd p) (nth (fst p) fs (VInt 0))) /\
    ref_decode (S G) s idx (enc (snd p) (nth (fst p) fs (VInt 0))) (t, u) = Some (set_nth t (fst p) (nv (snd p) (nth (fst p) fs (VInt 0))), u).

Lemma flat_map_bytes_ok {A} (g : A -> bytes) l : (forall x, In x l -> bytes_ok (g x)) -> bytes_ok (flat_map g l).
Proof. induction l as [|x l IH]; intros H; [constructor|]. cbn. apply bytes_ok_app; [apply H; left; reflexivity|apply IH; intros y Hy; apply H; right; exact Hy]. Qed.

Lemma number_from_slot_lt {A} (l : list A) : forall n p, In p (number_from n l) -> (fst p < n + length l)%nat.
Proof. induction l as [|x l IH]; intros n p H; cbn in H; [contradiction|]. destruct H as [<-|H]; [cbn; lia|]. specialize (IH _ _ H). cbn [length]. lia. Qed.

Lemma set_nth_length {A} (l : list A) i x : length (set_nth l i x) = length l.
Proof. revert i; induction l as [|a l IH]; intros [|i]; cbn; auto. Qed.

Lemma ref_decode_nil g x : ref_decode (S g) s idx [] x = Some x.
Proof. rewrite ref_decode_unfold, Hm, tokens_nil. reflexivity. Qed.

Section Assemble.
Variables (enc : fdesc -> val -> bytes) (nv : fdesc -> val -> val) (zero : fdesc -> val) (fs : list val).
Let fields := number_from 0 (mfields m).
Hypothesis Hfield : forall p, In p fields -> field_rt enc nv zero fs p.
Hypothesis Hzero_oneof : forall p q, In p fields -> In q fields -> In (fst q) (oneof_siblings m (snd p) (fst p)) -> unset (zero (snd q)).
Hypothesis Hone : forall p q, In p fields -> In q fields -> In (fst q) (oneof_siblings m (snd p) (fst p)) ->
  enc (snd p) (nth (fst p) fs (VInt 0)) <> [] -> unset (nv (snd q) (nth (fst q) fs (VInt 0))).

Lemma fields_rt : forall l, NoDup (map fst l) -> incl l fields -> forall t u,
  length t = length (mfields m) ->
  (forall p, In p l -> nth (fst p) t (VInt 0) = zero (snd p)) ->
  (forall q, In q fields -> ~ In q l -> nth (fst q) t (VInt 0) = nv (snd q) (nth (fst q) fs (VInt 0))) ->
  bytes_ok (flat_map (fun p => enc (snd p) (nth (fst p) fs (VInt 0))) l) /\
  exists t', ref_decode (S G) s idx (flat_map (fun p => enc (snd p) (nth (fst p) fs (VInt 0))) l) (t, u) = Some (t', u) /\
             length t' = length (mfields m) /\
             (forall q, In q fields -> nth (fst q) t' (VInt 0) = nv (snd q) (nth (fst q) fs (VInt 0))).
Proof.
  induction l as [|p l IH]; intros Hndl Hincl t u Hlen Hz Hdone.
  - split; [constructor|]. exists t. cbn [flat_map]. rewrite ref_decode_nil. split; [reflexivity|]. split; [exact Hlen|].
    intros q Hq. apply Hdone; [exact Hq|intros []].
  - cbn [flat_map map] in *. inversion Hndl as [|? ? Hnp Hndl']; subst.
    assert (Hp : In p fields) by (apply Hincl; left; reflexivity).
    assert (Hsib : enc (snd p) (nth (fst p) fs (VInt 0)) <> [] ->
              forall q, In q fields -> In (fst q) (oneof_siblings m (snd p) (fst p)) -> unset (nth (fst q) t (VInt 0))).
    { intros Hne q Hq Hs. destruct (in_dec (fun a b : nat * fdesc => ltac:(decide equality; [decide equality; try apply Z.eq_dec; try decide equality; try decide equality; try decide equality|decide equality])) q (p :: l)) as [Hin|Hnin].
      - rewrite (Hz q Hin). apply (Hzero_oneof p q Hp Hq Hs).
      - rewrite (Hdone q Hq Hnin). apply (Hone p q Hp Hq Hs Hne). }
    destruct (Hfield p Hp t u (Hz p (or_introl eq_refl)) Hsib) as [Hb1 Hd1].
    set (t1 := set_nth t (fst p) (nv (snd p) (nth (fst p) fs (VInt 0)))) in *.
    assert (Hslot : (fst p < length t)%nat) by (rewrite Hlen; apply (number_from_slot_lt (mfields m) 0 p Hp)).
    destruct (IH Hndl' (fun x Hx => Hincl x (or_intror Hx)) t1 u) as [Hb2 [t' [Hd2 [Hl2 Hall]]]].
    + unfold t1. rewrite set_nth_length. exact Hlen.
    + intros q Hq. unfold t1. rewrite nth_set_nth_other; [apply Hz; right; exact Hq|].
      intros E. apply Hnp. rewrite <- E. apply in_map. exact Hq.
    + intros q Hq Hnq. destruct (Nat.eq_dec (fst q) (fst p)) as [E|E].
      * assert (q = p).
        { pose proof (number_from_NoDup_fst (mfields m) 0) as Hndf. fold fields in Hndf.
          destruct (In_nth_error _ _ Hq) as [i Hi]. destruct (In_nth_error _ _ Hp) as [j Hj].
          assert (i = j).
          { apply (proj1 (NoDup_nth_error _) Hndf); [rewrite map_length; apply nth_error_Some; congruence|].
            rewrite !nth_error_map, Hi, Hj. cbn. congruence. }
          subst j. congruence. }
        subst q. unfold t1. apply nth_set_nth_in. exact Hslot.
      * unfold t1. rewrite nth_set_nth_other by exact E. apply Hdone; [exact Hq|]. intros [Hc|Hc]; [subst q; congruence|contradiction].
    + split; [apply bytes_ok_app; assumption|]. exists t'.
      rewrite (ref_decode_app (S G) s idx _ _ (t, u) (t1, u) Hb1 Hd1). auto.
Qed.
End Assemble.
End MsgRT.

(* ---------------------------------------------------------------- helpers *)
Lemma tokens_single b tok : b <> [] -> parse_token b = Some (tok, length b) -> tokens b = Some [tok].
Proof.
  intros Hne E. rewrite tokens_cons by exact Hne. rewrite E. destruct (length b) eqn:El; [destruct b; [congruence|discriminate El]|].
  rewrite <- El. rewrite skipn_all. rewrite tokens_nil. reflexivity.
Qed.

Lemma clear_unset m f slot t :
  (forall sib, In sib (oneof_siblings m f slot) -> unset (nth sib t (VInt 0))) -> clear_siblings m f slot t = t.
Proof.
  unfold clear_siblings. generalize (oneof_siblings m f slot) as l. induction l as [|sib l IH]; intros H; [reflexivity|].
  cbn [fold_left].
  assert (E : set_nth t sib (match nth sib t (VInt 0) with VMsg _ => VMsg None | _ => VOpt None end) = t).
  { destruct (H sib (or_introl eq_refl)) as [E|E]; rewrite E; rewrite <- E; apply set_nth_same. }
  rewrite E. apply IH. intros x Hx. apply H. right. exact Hx.
Qed.

Lemma siblings_are_fields m f slot sib : In sib (oneof_siblings m f slot) -> exists q, In q (number_from 0 (mfields m)) /\ fst q = sib.
Proof.
  unfold oneof_siblings. destruct (foneof f); [|intros []]. intros H. apply in_map_iff in H. destruct H as [q [E Hq]].
  apply filter_In in Hq. exists q. tauto.
Qed.

Lemma spec_field_nonempty k num v : spec_field k num v <> [].
Proof. unfold spec_field, spec_tag. pose proof (spec_varint_nonempty (num * 8 + wire_of k)). destruct (spec_varint (num * 8 + wire_of k)); [congruence|discriminate]. Qed.

Lemma default_is_zero k v : scalar_ok k v = true -> spec_default k v = true -> v = zero_scalar k.
Proof.
  intros Hok Hd. destruct v as [z|b| | | | | | |]; try (destruct k; discriminate Hok).
  - destruct k; try discriminate Hok; cbn in Hd; apply Z.eqb_eq in Hd; subst; reflexivity.
  - destruct k; try discriminate Hok; cbn in Hd; destruct b; try discriminate Hd; reflexivity.
Qed.

(* ---------------------------------------------------------------- scalar and enum fields *)
Section ScalarRT.
Variables (s : schema) (G : nat) (idx : nat) (m : mdesc).
Hypothesis Hm : nth_error s idx = Some m.
Hypothesis Hnd : NoDup (map fnum (mfields m)).
Variable rr : nat -> list val -> bytes -> bytes.    (* encoder of sub-messages (unused here) *)

(* the Go shape and range of a scalar / enum slot *)
Definition scalar_slot_ok (f : fdesc) (k : kind) (v : val) : bool :=
  let i := field_info s f in
  if i_repeated i then
    match v with VList l => forallb (scalar_ok k) l && lenb (flat_map (spec_payload k) l) | _ => false end
  else if i_oneof i || i_pointer i then
    match v with VOpt None => true | VOpt (Some x) => scalar_ok k x | _ => false end
  else scalar_ok k v.

Lemma decode_one_token slot f tok b t u r : In (slot, f) (number_from 0 (mfields m)) ->
  tokens b = Some [tok] -> t_num tok = fnum f -> apply_known s (ref_decode G s) m slot f tok t = Some r ->
  ref_decode (S G) s idx b (t, u) = Some (r, u).
Proof.
  intros Hin Ht En Ha. rewrite ref_decode_unfold, Hm, Ht. cbn. unfold apply_token. rewrite En.
  rewrite (find_field_known m Hnd slot f Hin). cbn [fst snd]. rewrite Ha. reflexivity.
Qed.

Lemma scalar_single_rt k slot f fs : In (slot, f) (number_from 0 (mfields m)) ->
  f_custom f = CNone -> (fty f = TScalar k \/ (fty f = TEnum /\ k = KInt32)) -> i_repeated (field_info s f) = false ->
  valid_number (fnum f) = true -> scalar_slot_ok f k (nth slot fs (VInt 0)) = true ->
  field_rt s G idx m (ref_slot rr) (fun f0 v => v)
    (fun f0 => if i_oneof (field_info s f0) || i_pointer (field_info s f0) then VOpt None else zero_scalar k) fs (slot, f).
Proof.
  intros Hin Hc Ht Hr Hv Hok t u Hz Hsib. cbn [fst snd] in *.
  unfold scalar_slot_ok in Hok. rewrite Hr in Hok.
  assert (Henc : ref_slot rr f (nth slot fs (VInt 0)) = ref_scalar_slot k (fnum f) (nth slot fs (VInt 0))).
  { unfold ref_slot. rewrite Hc. destruct Ht as [Ht|[Ht ->]]; rewrite Ht; reflexivity. }
  rewrite Henc in *.
  assert (Hk : forall tok t0, t_num tok = fnum f ->
             apply_known s (ref_decode G s) m slot f tok t0 =
             match tok_scalar k tok with
             | Some x => Some (set_nth (clear_siblings m f slot t0) slot (if i_oneof (field_info s f) || i_pointer (field_info s f) then VOpt (Some x) else x))
             | None => None end).
  { intros tok t0 _. unfold apply_known. rewrite Hc, Hr. destruct Ht as [Ht|[Ht ->]]; rewrite Ht; cbn [kind_of_ftype]; destruct (tok_scalar _ tok); reflexivity. }
  assert (Hone : forall x, scalar_ok k x = true ->
            (forall q, In q (number_from 0 (mfields m)) -> In (fst q) (oneof_siblings m f slot) -> unset (nth (fst q) t (VInt 0))) ->
            bytes_ok (spec_field k (fnum f) x) /\
            ref_decode (S G) s idx (spec_field k (fnum f) x) (t, u) =
            Some (set_nth t slot (if i_oneof (field_info s f) || i_pointer (field_info s f) then VOpt (Some x) else x), u)).
  { intros x Hx Hs.
    destruct (field_token k (fnum f) x [] Hv Hx ltac:(constructor)) as [p [n [Ep [En Et]]]]. rewrite app_nil_r in Ep.
    split; [unfold spec_field; apply bytes_ok_app; [apply spec_tag_bytes_ok; [unfold valid_number in Hv; apply andb_true_iff in Hv; destruct Hv as [H1 _]; apply Z.leb_le in H1; lia|pose proof (wire_of_range k); lia]|apply spec_payload_bytes_ok, Hx]|].
    subst n. apply (decode_one_token slot f _ _ t u _ Hin (tokens_single _ _ (spec_field_nonempty k (fnum f) x) Ep) eq_refl).
    rewrite Hk by reflexivity. rewrite Et. rewrite clear_unset; [reflexivity|].
    intros sib Hsb. destruct (siblings_are_fields m f slot sib Hsb) as [q [Hq <-]]. apply Hs; assumption. }
  destruct (i_oneof (field_info s f) || i_pointer (field_info s f)) eqn:Ebox.
  - destruct (nth slot fs (VInt 0)) as [| |[x|]| | | | | |] eqn:Ev; try discriminate Hok; cbn [ref_scalar_slot] in *.
    + apply Hone; [exact Hok|]. apply Hsib. apply spec_field_nonempty.
    + split; [constructor|]. rewrite (ref_decode_nil s idx m Hm). rewrite <- Hz. rewrite set_nth_same. reflexivity.
  - assert (Hplain : ref_scalar_slot k (fnum f) (nth slot fs (VInt 0)) =
                     if spec_default k (nth slot fs (VInt 0)) then [] else spec_field k (fnum f) (nth slot fs (VInt 0))).
    { destruct (nth slot fs (VInt 0)); try reflexivity; destruct k; discriminate Hok. }
    rewrite Hplain in *. destruct (spec_default k (nth slot fs (VInt 0))) eqn:Ed.
    + split; [constructor|]. rewrite (ref_decode_nil s idx m Hm). rewrite (default_is_zero k _ Hok Ed), <- Hz, set_nth_same. reflexivity.
    + apply Hone; [exact Hok|]. apply Hsib. apply spec_field_nonempty.
Qed.
End ScalarRT.

Lemma payload_value k num v rest : scalar_ok k v = true -> bytes_ok rest ->
  exists p, parse_value num (wire_of k) (spec_payload k v ++ rest) = Some (p, length (spec_payload k v)) /\
            tok_scalar k {| t_num := num; t_wt := wire_of k; t_pay := p; t_raw := firstn (length (spec_payload k v)) (spec_payload k v ++ rest) |} = Some v.
Proof.
  intros Hok Hr.
  pose proof (dec_payload_parse k num (spec_payload k v ++ rest) (bytes_ok_app _ _ (spec_payload_bytes_ok k v Hok) Hr)) as Hd.
  pose proof (dec_enc_payload k v rest Hok) as Hde. rewrite (enc_payload_spec k v Hok) in Hde.
  destruct (parse_value num (wire_of k) (spec_payload k v ++ rest)) as [[p kk]|].
  - destruct Hd as [x [Ht Ed]]. rewrite Hde in Ed. injection Ed as <- Ek. apply Nat2Z.inj in Ek. subst kk. exists p. split; [reflexivity|exact Ht].
  - rewrite Hde in Hd. cbn [snd] in Hd. lia.
Qed.

Lemma spec_payload_nonempty k v : is_scalar_wire k = true -> spec_payload k v <> [].
Proof.
  intros Hs. destruct k; try discriminate Hs; cbn [spec_payload]; try discriminate;
    try (apply spec_varint_nonempty).
Qed.

Lemma unpack_payloads k : is_scalar_wire k = true -> forall l, forallb (scalar_ok k) l = true ->
  forall fuel, (length (flat_map (spec_payload k) l) < fuel)%nat -> unpack fuel k (flat_map (spec_payload k) l) = Some l.
Proof.
  intros Hs. induction l as [|x l IH]; intros Hok fuel Hf.
  - destruct fuel; [lia|reflexivity].
  - cbn [flat_map forallb] in *. apply andb_true_iff in Hok. destruct Hok as [Hx Hl].
    destruct fuel as [|fuel]; [lia|].
    assert (Hbl : bytes_ok (flat_map (spec_payload k) l)).
    { apply flat_map_bytes_ok. intros y Hy. apply spec_payload_bytes_ok. rewrite forallb_forall in Hl. apply Hl, Hy. }
    rewrite unpack_step; [|exact Hs|].
    2:{ pose proof (spec_payload_nonempty k x Hs). destruct (spec_payload k x); [congruence|discriminate]. }
    destruct (payload_value k 0 x (flat_map (spec_payload k) l) Hx Hbl) as [p [Ep Et]]. rewrite Ep, Et.
    rewrite (skipn_app_l (spec_payload k x) _ _ eq_refl). rewrite IH; [reflexivity|exact Hl|]. rewrite app_length in Hf.
    pose proof (spec_payload_nonempty k x Hs). destruct (spec_payload k x); [congruence|cbn [length] in Hf; lia].
Qed.

Section ScalarRepRT.
Variables (s : schema) (G : nat) (idx : nat) (m : mdesc).
Hypothesis Hm : nth_error s idx = Some m.
Hypothesis Hnd : NoDup (map fnum (mfields m)).
Variable rr : nat -> list val -> bytes -> bytes.

Lemma tok_scalar_bytes_none k tok b : is_bytes_kind k = false -> t_pay tok = PBytes b -> tok_scalar k tok = None.
Proof. intros Hk Hp. unfold tok_scalar. rewrite Hp. destruct k; try discriminate Hk; reflexivity. Qed.

Lemma scalar_rep_rt k slot f fs : In (slot, f) (number_from 0 (mfields m)) ->
  f_custom f = CNone -> (fty f = TScalar k \/ (fty f = TEnum /\ k = KInt32)) -> i_repeated (field_info s f) = true -> foneof f = None ->
  valid_number (fnum f) = true -> scalar_slot_ok s f k (nth slot fs (VInt 0)) = true ->
  field_rt s G idx m (ref_slot rr) (fun f0 v => v) (fun f0 => VList []) fs (slot, f).
Proof.
  intros Hin Hc Ht Hr Hno Hv Hok t u Hz _. cbn [fst snd] in *.
  unfold scalar_slot_ok in Hok. rewrite Hr in Hok.
  destruct (nth slot fs (VInt 0)) as [| | |l| | | | |] eqn:Ev; try discriminate Hok.
  apply andb_true_iff in Hok. destruct Hok as [Hall Hlen].
  assert (Henc : ref_slot rr f (VList l) = ref_scalar_slot k (fnum f) (VList l)).
  { unfold ref_slot. rewrite Hc. destruct Ht as [Ht|[Ht ->]]; rewrite Ht; reflexivity. }
  rewrite Henc. cbn [ref_scalar_slot].
  assert (Hvn : 0 <= fnum f) by (unfold valid_number in Hv; apply andb_true_iff in Hv; destruct Hv as [H1 _]; apply Z.leb_le in H1; lia).
  assert (Hk : forall tok t0, apply_known s (ref_decode G s) m slot f tok t0 =
             match tok_scalar k tok with
             | Some x => Some (set_nth t0 slot (VList (as_list (nth slot t0 (VInt 0)) ++ [x])))
             | None => match t_pay tok with
                       | PBytes b => if is_bytes_kind k then None else
                                     match unpack (S (length b)) k b with Some xs => Some (set_nth t0 slot (VList (as_list (nth slot t0 (VInt 0)) ++ xs))) | None => None end
                       | _ => None end
             end).
  { intros tok t0. unfold apply_known. rewrite Hc, Hr, (clear_siblings_none m f slot t0 Hno).
    destruct Ht as [Ht|[Ht ->]]; rewrite Ht; cbn [kind_of_ftype]; reflexivity. }
  destruct (is_bytes_kind k) eqn:Eb.
  - (* one record per element *)
    assert (Gl : forall l0 acc t0, forallb (scalar_ok k) l0 = true -> nth slot t0 (VInt 0) = VList acc -> (slot < length t0)%nat ->
              bytes_ok (flat_map (spec_field k (fnum f)) l0) /\
              ref_decode (S G) s idx (flat_map (spec_field k (fnum f)) l0) (t0, u) = Some (set_nth t0 slot (VList (acc ++ l0)), u)).
    { induction l0 as [|x l0 IH]; intros acc t0 Hal Hn Hsl.
      - split; [constructor|]. cbn [flat_map]. rewrite (ref_decode_nil s idx m Hm), app_nil_r, <- Hn, set_nth_same. reflexivity.
      - cbn [flat_map forallb] in *. apply andb_true_iff in Hal. destruct Hal as [Hx Hal].
        destruct (field_token k (fnum f) x [] Hv Hx ltac:(constructor)) as [p [n [Ep [En Et]]]]. rewrite app_nil_r in Ep. subst n.
        assert (Hb1 : bytes_ok (spec_field k (fnum f) x)).
        { unfold spec_field. apply bytes_ok_app; [apply spec_tag_bytes_ok; [exact Hvn|pose proof (wire_of_range k); lia]|apply spec_payload_bytes_ok, Hx]. }
        assert (Hd1 : ref_decode (S G) s idx (spec_field k (fnum f) x) (t0, u) = Some (set_nth t0 slot (VList (acc ++ [x])), u)).
        { apply (decode_one_token s G idx m Hm Hnd slot f _ _ t0 u _ Hin (tokens_single _ _ (spec_field_nonempty k (fnum f) x) Ep) eq_refl).
          rewrite Hk, Et, Hn. reflexivity. }
        destruct (IH (acc ++ [x]) (set_nth t0 slot (VList (acc ++ [x]))) Hal ltac:(apply nth_set_nth_in; exact Hsl) ltac:(rewrite set_nth_length; exact Hsl)) as [Hb2 Hd2].
        split; [apply bytes_ok_app; assumption|].
        rewrite (ref_decode_app (S G) s idx _ _ (t0, u) _ Hb1 Hd1), Hd2. rewrite set_nth_set_nth, <- app_assoc. reflexivity. }
    destruct (Nat.lt_ge_cases slot (length t)) as [Hsl|Hsl].
    + destruct (Gl l [] t Hall Hz Hsl) as [Hb Hd]. split; [exact Hb|]. rewrite Hd. reflexivity.
    + (* slot outside the target: nothing is ever stored; cannot happen for a target of the right length, but holds as well *)
      exfalso. rewrite nth_overflow in Hz by exact Hsl. discriminate Hz.
  - (* packed *)
    destruct l as [|x l'].
    + split; [constructor|]. rewrite (ref_decode_nil s idx m Hm), <- Hz, set_nth_same. reflexivity.
    + set (l := x :: l') in *. set (payload := flat_map (spec_payload k) l) in *.
      assert (Hbp : bytes_ok payload).
      { apply flat_map_bytes_ok. intros y Hy. apply spec_payload_bytes_ok. rewrite forallb_forall in Hall. apply Hall, Hy. }
      pose proof (ld_token (fnum f) payload [] Hv Hbp Hlen ltac:(constructor)) as Ep. rewrite app_nil_r in Ep.
      split.
      * unfold spec_ld. apply bytes_ok_app; [apply spec_tag_bytes_ok; lia|]. apply bytes_ok_app; [apply spec_varint_bytes_ok; lia|exact Hbp].
      * assert (Hne : spec_ld (fnum f) payload <> []).
        { unfold spec_ld, spec_tag. pose proof (spec_varint_nonempty (fnum f * 8 + 2)). destruct (spec_varint (fnum f * 8 + 2)); [congruence|discriminate]. }
        apply (decode_one_token s G idx m Hm Hnd slot f _ _ t u _ Hin (tokens_single _ _ Hne Ep) eq_refl).
        rewrite Hk. match goal with |- context[tok_scalar k ?tok] => rewrite (tok_scalar_bytes_none k tok payload Eb eq_refl) end. cbn [t_pay].
        pose proof (unpack_payloads k ltac:(unfold is_scalar_wire; rewrite Eb; reflexivity) l Hall (S (length payload)) ltac:(unfold payload; lia)) as Hu.
        fold payload in Hu. rewrite Hu, Hz. reflexivity.
Qed.
End ScalarRepRT.

(* ---------------------------------------------------------------- side conditions on the value (what Go's types and maps guarantee) *)
Definition is_set (v : val) : bool := match v with VOpt (Some _) | VMsg (Some _) => true | _ => false end.
Definition oneof_ok (m : mdesc) (fs : list val) : bool :=
  forallb (fun p : nat * fdesc => negb (is_set (nth (fst p) fs (VInt 0))) ||
                    forallb (fun sib => negb (is_set (nth sib fs (VInt 0)))) (oneof_siblings m (snd p) (fst p)))
          (number_from 0 (mfields m)).
Definition bytes_eqb (a b : bytes) : bool := if list_eq_dec Z.eq_dec a b then true else false.
Lemma bytes_eqb_eq a b : bytes_eqb a b = true -> a = b.
Proof. unfold bytes_eqb. destruct (list_eq_dec Z.eq_dec a b); [auto|discriminate]. Qed.

(* XXX_unrecognized of a capturing message holds what UnrecognizedFields stores: re-tagged unknown fields *)
Definition un_ok (m : mdesc) (un : bytes) : bool :=
  if m_capture m then
    forallb byte_ok un &&
    match tokens un with
    | Some ts => forallb (fun tok => match find_field m (t_num tok) with None => true | Some _ => false end) ts &&
                 bytes_eqb un (flat_map (fun tok => spec_tag (t_num tok) (t_wt tok) ++ t_raw tok) ts)
    | None => false
    end
  else match un with [] => true | _ => false end.

Lemma byte_ok_bytes_ok l : forallb byte_ok l = true -> bytes_ok l.
Proof.
  intros H. rewrite forallb_forall in H. apply Forall_forall. intros y Hy. specialize (H y Hy). unfold byte_ok in H.
  apply andb_true_iff in H. destruct H as [H1 H2]. apply Z.leb_le in H1. apply Z.ltb_lt in H2. lia.
Qed.

Lemma un_decode s G idx m un t : nth_error s idx = Some m -> un_ok m un = true ->
  bytes_ok (if m_capture m then un else []) /\
  ref_decode (S G) s idx (if m_capture m then un else []) (t, []) = Some (t, un).
Proof.
  intros Hm H. unfold un_ok in H. destruct (m_capture m) eqn:Ec.
  - apply andb_true_iff in H. destruct H as [Hb H]. split; [apply byte_ok_bytes_ok, Hb|].
    rewrite ref_decode_unfold, Hm. destruct (tokens un) as [ts|]; [|discriminate H].
    apply andb_true_iff in H. destruct H as [Hall He]. apply bytes_eqb_eq in He. rewrite He. clear He.
    assert (Gf : forall ts0 acc, forallb (fun tok => match find_field m (t_num tok) with None => true | Some _ => false end) ts0 = true ->
              fold_opt (apply_token s (ref_decode G s) m) ts0 (Some (t, acc)) =
              Some (t, acc ++ flat_map (fun tok => spec_tag (t_num tok) (t_wt tok) ++ t_raw tok) ts0)).
    { induction ts0 as [|tok ts0 IH]; intros acc Ha; [cbn; rewrite app_nil_r; reflexivity|].
      cbn [forallb] in Ha. apply andb_true_iff in Ha. destruct Ha as [H1 H2]. rewrite fold_opt_cons. unfold apply_token at 2.
      destruct (find_field m (t_num tok)); [discriminate H1|]. rewrite Ec. cbn [fst snd]. rewrite IH by exact H2.
      cbn [flat_map]. rewrite <- !app_assoc. reflexivity. }
    exact (Gf ts [] Hall).
  - destruct un; [|discriminate H]. split; [constructor|]. apply (ref_decode_nil s idx m Hm).
Qed.

Lemma list_ext_nth {A} (a b : list A) d : length a = length b -> (forall i, (i < length a)%nat -> nth i a d = nth i b d) -> a = b.
Proof.
  revert b. induction a as [|x a IH]; intros [|y b] Hl H; try discriminate Hl; [reflexivity|].
  f_equal; [apply (H 0%nat); cbn; lia|]. apply IH; [cbn in Hl; lia|]. intros i Hi. apply (H (S i)). cbn. lia.
Qed.

Lemma number_from_nth {A} (l : list A) : forall n i x, nth_error l i = Some x -> In ((n + i)%nat, x) (number_from n l).
Proof.
  induction l as [|y l IH]; intros n i x H; [destruct i; discriminate H|]. destruct i as [|i]; cbn in *.
  - injection H as <-. left. f_equal. lia.
  - right. replace (n + S i)%nat with (S n + i)%nat by lia. apply IH. exact H.
Qed.
Lemma number_from_in_nth {A} (l : list A) : forall n p, In p (number_from n l) -> nth_error l (fst p - n) = Some (snd p) /\ (n <= fst p)%nat.
Proof.
  induction l as [|y l IH]; intros n p H; cbn in H; [contradiction|]. destruct H as [<-|H].
  - cbn. rewrite Nat.sub_diag. split; [reflexivity|lia].
  - destruct (IH _ _ H) as [E Hle]. split; [|lia]. replace (fst p - n)%nat with (S (fst p - S n)) by lia. exact E.
Qed.

(* ---------------------------------------------------------------- typing of values for the round trip *)
Definition msg_elem_ok (s : schema) (sub : nat -> list val -> bytes -> bool) (enc : nat -> list val -> bytes -> bytes)
           (f : fdesc) (j : nat) (x : val) : bool :=
  match x with
  | VMsg None => i_pointer (field_info s f)
  | VMsg (Some (fs1, u1)) => i_pointer (field_info s f) && sub j fs1 u1 && lenb (enc j fs1 u1)
  | VEmb fs1 u1 => (negb (i_pointer (field_info s f)) && negb (i_oneof (field_info s f))) && sub j fs1 u1 && lenb (enc j fs1 u1)
  (* by-value member of a oneof (always-present message type): the wrapper is absent or holds the message *)
  | VOpt None => negb (i_pointer (field_info s f)) && i_oneof (field_info s f)
  | VOpt (Some x) =>
      match x with
      | VEmb fs1 u1 => (negb (i_pointer (field_info s f)) && i_oneof (field_info s f)) && sub j fs1 u1 && lenb (enc j fs1 u1)
      | _ => false
      end
  | _ => false
  end.
Definition msg_slot_ok (s : schema) (sub : nat -> list val -> bytes -> bool) (enc : nat -> list val -> bytes -> bytes)
           (f : fdesc) (j : nat) (v : val) : bool :=
  if i_repeated (field_info s f) then match v with VList l => forallb (msg_elem_ok s sub enc f j) l | _ => false end
  else msg_elem_ok s sub enc f j v.
Definition entry_payload (kk vk : kind) (e : val * val) : bytes :=
  (if spec_default kk (fst e) then [] else spec_field kk 1 (fst e)) ++ (if spec_default vk (snd e) then [] else spec_field vk 2 (snd e)).
(* Go map keys are pairwise distinct *)
Fixpoint keys_fresh (acc l : list (val * val)) : bool :=
  match l with
  | [] => true
  | e :: t => negb (existsb (fun e' => spec_key_eqb (fst e') (fst e)) acc) && keys_fresh (acc ++ [e]) t
  end.
Definition map_slot_ok (kk vk : kind) (v : val) : bool :=
  match v with
  | VMap l => forallb (fun e => scalar_ok kk (fst e) && scalar_ok vk (snd e) && lenb (entry_payload kk vk e)) l && keys_fresh [] l
  | _ => false
  end.
Definition cast_of (f : fdesc) : cast := match f_custom f with CTimestamp => CastTs | _ => CastDur end.
Definition cast_opt_ok (c : cast) (x : val) : bool := match x with VOpt None => true | VOpt (Some y) => cast_elem_ok c y | _ => false end.
Definition cast_slot_ok (s : schema) (f : fdesc) (v : val) : bool :=
  let i := field_info s f in
  if i_repeated i then match v with VList l => forallb (if i_pointer i then cast_opt_ok (cast_of f) else cast_elem_ok (cast_of f)) l | _ => false end
  else if i_oneof i || i_pointer i then cast_opt_ok (cast_of f) v else cast_elem_ok (cast_of f) v.

Definition slot_rt_ok (s : schema) (sub : nat -> list val -> bytes -> bool) (enc : nat -> list val -> bytes -> bytes)
           (f : fdesc) (v : val) : bool :=
  match f_custom f, fty f with
  | CNone, TScalar k => scalar_slot_ok s f k v
  | CNone, TEnum => negb (i_pointer (field_info s f)) && scalar_slot_ok s f KInt32 v
  | CNone, TMsg j => msg_slot_ok s sub enc f j v
  | CNone, TMap kk vk => map_slot_ok kk vk v
  | (CTimestamp | CDuration), _ => cast_slot_ok s f v
  | _, _ => false
  end.

Fixpoint rt_ok (g : nat) (s : schema) (idx : nat) (fs : list val) (un : bytes) : bool :=
  match g with
  | O => false
  | S g' =>
      match nth_error s idx with
      | None => false
      | Some m =>
          Nat.eqb (length fs) (length (mfields m)) &&
          forallb (fun p : nat * fdesc => slot_rt_ok s (rt_ok g' s) (ref_encode g' s) (snd p) (nth (fst p) fs (VInt 0))) (number_from 0 (mfields m)) &&
          oneof_ok m fs && un_ok m un
      end
  end.

Lemma field_rt_ext s G idx m enc1 enc2 nv1 nv2 z1 z2 fs p :
  enc1 (snd p) (nth (fst p) fs (VInt 0)) = enc2 (snd p) (nth (fst p) fs (VInt 0)) ->
  nv1 (snd p) (nth (fst p) fs (VInt 0)) = nv2 (snd p) (nth (fst p) fs (VInt 0)) -> z1 (snd p) = z2 (snd p) ->
  field_rt s G idx m enc1 nv1 z1 fs p -> field_rt s G idx m enc2 nv2 z2 fs p.
Proof. unfold field_rt. intros E1 E2 E3 H t u Hz Hs. rewrite <- E1, <- E2. rewrite <- E1 in Hs. rewrite <- E3 in Hz. apply H; assumption. Qed.

Lemma zero_slot_scalar n s f k : f_custom f = CNone -> (fty f = TScalar k \/ (fty f = TEnum /\ k = KInt32 /\ i_pointer (field_info s f) = false)) ->
  zero_slot n s f = if i_repeated (field_info s f) then VList [] else if i_oneof (field_info s f) || i_pointer (field_info s f) then VOpt None else zero_scalar k.
Proof.
  intros Hc Ht. destruct n; cbn [zero_slot].
  all: destruct Ht as [Ht|[Ht [-> Hp]]];
    [rewrite (info_scalar s f k Hc Ht)|rewrite (info_enum s f Hc Ht), Hp];
    destruct (i_repeated (field_info s f)); try reflexivity; destruct (i_oneof (field_info s f)); try reflexivity;
    try (destruct (i_pointer (field_info s f)); reflexivity).
Qed.

Lemma norm_slot_scalar g s f v : f_custom f = CNone -> (exists k, fty f = TScalar k) \/ fty f = TEnum -> norm_slot g s f v = v.
Proof. intros Hc Ht. unfold norm_slot. rewrite Hc. destruct Ht as [[k Ht]|Ht]; rewrite Ht; reflexivity. Qed.

Lemma nth_zero_fields s m slot f : In (slot, f) (number_from 0 (mfields m)) -> nth slot (zero_fields s m) (VInt 0) = zero_slot (length s) s f.
Proof.
  intros Hin. destruct (number_from_in_nth (mfields m) 0 (slot, f) Hin) as [E _]. cbn [fst snd] in E. rewrite Nat.sub_0_r in E.
  unfold zero_fields. apply nth_error_nth. rewrite nth_error_map, E. reflexivity.
Qed.

(* ---------------------------------------------------------------- message-typed fields *)
Definition zero_stable (s : schema) : Prop := forall m f j mj, In m s -> In f (mfields m) -> f_custom f = CNone -> fty f = TMsg j ->
  i_repeated (field_info s f) = false -> i_pointer (field_info s f) = false -> i_oneof (field_info s f) = false -> nth_error s j = Some mj ->
  zero_slot (length s) s f = VEmb (zero_fields s mj) [].
Definition msg_idx_ok (s : schema) : Prop := forall m f j, In m s -> In f (mfields m) -> fty f = TMsg j -> exists mj, nth_error s j = Some mj.

Lemma spec_ld_nonempty num p : spec_ld num p <> [].
Proof. unfold spec_ld, spec_tag. pose proof (spec_varint_nonempty (num * 8 + 2)). destruct (spec_varint (num * 8 + 2)); [congruence|discriminate]. Qed.
Lemma spec_ld_bytes_ok num p : 0 <= num -> bytes_ok p -> bytes_ok (spec_ld num p).
Proof. intros Hn Hp. unfold spec_ld. apply bytes_ok_app; [apply spec_tag_bytes_ok; lia|]. apply bytes_ok_app; [apply spec_varint_bytes_ok; lia|exact Hp]. Qed.

Section MsgFieldRT.
Variables (s : schema) (G : nat) (idx : nat) (m : mdesc).
Hypothesis Hm : nth_error s idx = Some m.
Hypothesis Hnd : NoDup (map fnum (mfields m)).
Variables (g : nat) (j : nat).
Let enc := ref_encode g s.
Let sub := rt_ok g s.
(* the round trip of the field's message type (induction hypothesis), at the budget the enclosing decoder passes down *)
Hypothesis Hsub : forall fs1 u1, sub j fs1 u1 = true -> exists mj, nth_error s j = Some mj /\
  bytes_ok (enc j fs1 u1) /\ ref_decode G s j (enc j fs1 u1) (zero_fields s mj, []) = Some (norm_fields g s j fs1, u1).
Hypothesis Hstable : zero_stable s.
Hypothesis Hidx : msg_idx_ok s.
Hypothesis HG : (1 <= G)%nat.

Lemma sub_nil mj : nth_error s j = Some mj -> ref_decode G s j [] (zero_fields s mj, []) = Some (zero_fields s mj, []).
Proof. intros E. destruct G as [|G']; [lia|]. apply (ref_decode_nil s j mj E). Qed.

Lemma msg_rt slot f fs : In (slot, f) (number_from 0 (mfields m)) -> In m s ->
  f_custom f = CNone -> fty f = TMsg j -> valid_number (fnum f) = true ->
  (foneof f <> None -> i_repeated (field_info s f) = false) ->
  msg_slot_ok s sub enc f j (nth slot fs (VInt 0)) = true ->
  field_rt s G idx m (ref_slot enc) (norm_slot g s) (zero_slot (length s) s) fs (slot, f).
Proof.
  intros Hin Hms Hc Ht Hv Hone Hok t u Hz Hsib. cbn [fst snd] in *.
  pose proof (number_from_In _ _ _ Hin) as Hfin. destruct (Hidx m f j Hms Hfin Ht) as [mj Emj].
  assert (Hvn : 0 <= fnum f) by (unfold valid_number in Hv; apply andb_true_iff in Hv; destruct Hv as [H1 _]; apply Z.leb_le in H1; lia).
  assert (Henc : forall v, ref_slot enc f v = ref_msg_slot enc (fnum f) j v) by (intros v; unfold ref_slot; rewrite Hc, Ht; reflexivity).
  assert (Hzo : zero_of s j = (zero_fields s mj, [])) by (unfold zero_of; rewrite Emj; reflexivity).
  rewrite Henc in *.
  (* what one written record does *)
  assert (Hrec : forall payload t0 r, bytes_ok payload -> lenb payload = true ->
            apply_known s (ref_decode G s) m slot f {| t_num := fnum f; t_wt := 2; t_pay := PBytes payload; t_raw := spec_varint (Z.of_nat (length payload)) ++ payload |} t0 = Some r ->
            bytes_ok (spec_ld (fnum f) payload) /\ ref_decode (S G) s idx (spec_ld (fnum f) payload) (t0, u) = Some (r, u)).
  { intros payload t0 r Hbp Hlp Ha. split; [apply spec_ld_bytes_ok; assumption|].
    pose proof (ld_token (fnum f) payload [] Hv Hbp Hlp ltac:(constructor)) as Ep. rewrite app_nil_r in Ep.
    apply (decode_one_token s G idx m Hm Hnd slot f _ _ t0 u r Hin (tokens_single _ _ (spec_ld_nonempty _ _) Ep) eq_refl Ha). }
  unfold msg_slot_ok in Hok.
  destruct (i_repeated (field_info s f)) eqn:Er.
  - (* repeated *)
    assert (Hno : foneof f = None) by (destruct (foneof f) eqn:E; [pose proof (Hone ltac:(congruence)); congruence|reflexivity]).
    assert (Hio : i_oneof (field_info s f) = false) by (rewrite info_oneof, Hno; reflexivity).
    destruct (nth slot fs (VInt 0)) as [| | |l| | | | |] eqn:Ev; try discriminate Hok.
    assert (Hzl : zero_slot (length s) s f = VList []).
    { destruct (length s); cbn [zero_slot]; rewrite (info_msg s f j Hc Ht), Er; reflexivity. }
    rewrite Hzl in Hz. cbn [ref_msg_slot].
    assert (Hk : forall payload t0, apply_known s (ref_decode G s) m slot f {| t_num := fnum f; t_wt := 2; t_pay := PBytes payload; t_raw := spec_varint (Z.of_nat (length payload)) ++ payload |} t0 =
               match ref_decode G s j payload (zero_fields s mj, []) with
               | Some x => Some (set_nth t0 slot (VList (as_list (nth slot t0 (VInt 0)) ++ [if i_pointer (field_info s f) then VMsg (Some x) else VEmb (fst x) (snd x)])))
               | None => None end).
    { intros payload t0. unfold apply_known. rewrite Hc, Ht, Er, (clear_siblings_none m f slot t0 Hno). cbn [t_pay]. rewrite Hzo. reflexivity. }
    set (nel := fun e : val => match e with
                           | VMsg None => VMsg (Some (match nth_error s j with Some mj0 => zero_fields s mj0 | None => [] end, []))
                           | VMsg (Some (fs1, u0)) => VMsg (Some (norm_fields g s j fs1, u0))
                           | VEmb fs1 u0 => VEmb (norm_fields g s j fs1) u0
                           | x => x end).
    assert (Hnorm : norm_slot g s f (VList l) = VList (map nel l)) by (unfold norm_slot; rewrite Hc, Ht; reflexivity).
    rewrite Hnorm.
    assert (Gl : forall l0 acc t0, forallb (msg_elem_ok s sub enc f j) l0 = true -> nth slot t0 (VInt 0) = VList acc -> (slot < length t0)%nat ->
              bytes_ok (flat_map (ref_msg_elem enc (fnum f) j) l0) /\
              ref_decode (S G) s idx (flat_map (ref_msg_elem enc (fnum f) j) l0) (t0, u) = Some (set_nth t0 slot (VList (acc ++ map nel l0)), u)).
    { induction l0 as [|x l0 IH]; intros acc t0 Hal Hn Hsl.
      - split; [constructor|]. cbn [flat_map map]. rewrite (ref_decode_nil s idx m Hm), app_nil_r, <- Hn, set_nth_same. reflexivity.
      - cbn [flat_map forallb map] in *. apply andb_true_iff in Hal. destruct Hal as [Hx Hal].
        assert (Hstep : bytes_ok (ref_msg_elem enc (fnum f) j x) /\
                        ref_decode (S G) s idx (ref_msg_elem enc (fnum f) j x) (t0, u) = Some (set_nth t0 slot (VList (acc ++ [nel x])), u)).
        { unfold msg_elem_ok in Hx. rewrite Hio in Hx. rewrite ?andb_false_r in Hx. cbn [andb negb] in Hx. rewrite ?andb_true_r in Hx.
          destruct x as [| |[[]|]| |[[fs1 u1]|]|fs1 u1| | |]; try discriminate Hx; cbn [ref_msg_elem].
          - apply andb_true_iff in Hx. destruct Hx as [Hx Hl1]. apply andb_true_iff in Hx. destruct Hx as [Hp Hs1].
            destruct (Hsub fs1 u1 Hs1) as [mj' [E' [Hb1 Hd1]]]. rewrite Emj in E'. injection E' as <-.
            apply (Hrec _ t0 _ Hb1 Hl1). rewrite Hk. fold enc. rewrite Hd1, Hn, Hp. reflexivity.
          - apply (Hrec [] t0 _ ltac:(constructor) ltac:(reflexivity)). rewrite Hk, (sub_nil mj Emj), Hn, Hx. cbn [nel]. rewrite Emj. reflexivity.
          - apply andb_true_iff in Hx. destruct Hx as [Hx Hl1]. apply andb_true_iff in Hx. destruct Hx as [Hp Hs1]. apply negb_true_iff in Hp.
            destruct (Hsub fs1 u1 Hs1) as [mj' [E' [Hb1 Hd1]]]. rewrite Emj in E'. injection E' as <-.
            apply (Hrec _ t0 _ Hb1 Hl1). rewrite Hk. fold enc. rewrite Hd1, Hn, Hp. reflexivity. }
        destruct Hstep as [Hb1 Hd1].
        destruct (IH (acc ++ [nel x]) (set_nth t0 slot (VList (acc ++ [nel x]))) Hal ltac:(apply nth_set_nth_in; exact Hsl) ltac:(rewrite set_nth_length; exact Hsl)) as [Hb2 Hd2].
        split; [apply bytes_ok_app; assumption|].
        rewrite (ref_decode_app (S G) s idx _ _ (t0, u) _ Hb1 Hd1), Hd2. rewrite set_nth_set_nth, <- app_assoc. reflexivity. }
    destruct (Nat.lt_ge_cases slot (length t)) as [Hsl|Hsl]; [|exfalso; rewrite nth_overflow in Hz by exact Hsl; discriminate Hz].
    destruct (Gl l [] t Hok Hz Hsl) as [Hb Hd]. split; [exact Hb|]. rewrite Hd. reflexivity.
  - (* singular *)
    unfold msg_elem_ok in Hok.
    destruct (nth slot fs (VInt 0)) as [| |[x|]| |[[fs1 u1]|]|fs1 u1| | |] eqn:Ev; try discriminate Hok; cbn [ref_msg_slot].
    + (* selected by-value member of a oneof: always written, decoded into a fresh wrapper *)
      destruct x as [| | | | |fs1 u1| | |]; try discriminate Hok.
      apply andb_true_iff in Hok. destruct Hok as [Hok Hl1]. apply andb_true_iff in Hok. destruct Hok as [Hp Hs1].
      apply andb_true_iff in Hp. destruct Hp as [Hp Hio]. apply negb_true_iff in Hp.
      destruct (Hsub fs1 u1 Hs1) as [mj' [E' [Hb1 Hd1]]]. rewrite Emj in E'. injection E' as <-.
      assert (Hzp : zero_slot (length s) s f = VOpt None) by (destruct (length s); cbn [zero_slot]; rewrite (info_msg s f j Hc Ht), Er, Hp, Hio; reflexivity).
      rewrite Hzp in Hz.
      assert (Hnorm : norm_slot g s f (VOpt (Some (VEmb fs1 u1))) = VOpt (Some (VEmb (norm_fields g s j fs1) u1))) by (unfold norm_slot; rewrite Hc, Ht; reflexivity).
      rewrite Hnorm. apply (Hrec _ t _ Hb1 Hl1).
      unfold apply_known. rewrite Hc, Ht, Er, Hp, Hio. cbn [t_pay]. rewrite Hz, Hzo. fold enc. rewrite Hd1. cbn [fst snd].
      rewrite clear_unset; [reflexivity|]. intros sib Hsb. destruct (siblings_are_fields m f slot sib Hsb) as [q [Hq <-]].
      apply (Hsib (spec_ld_nonempty _ _) q Hq Hsb).
    + (* unselected by-value member *)
      apply andb_true_iff in Hok. destruct Hok as [Hp Hio]. apply negb_true_iff in Hp.
      assert (Hzp : zero_slot (length s) s f = VOpt None) by (destruct (length s); cbn [zero_slot]; rewrite (info_msg s f j Hc Ht), Er, Hp, Hio; reflexivity).
      split; [constructor|]. rewrite (ref_decode_nil s idx m Hm).
      assert (Hnorm : norm_slot g s f (VOpt None) = VOpt None) by (unfold norm_slot; rewrite Hc, Ht; reflexivity).
      rewrite Hnorm, <- Hzp, <- Hz, set_nth_same. reflexivity.
    + (* pointer to a message *)
      apply andb_true_iff in Hok. destruct Hok as [Hok Hl1]. apply andb_true_iff in Hok. destruct Hok as [Hp Hs1].
      destruct (Hsub fs1 u1 Hs1) as [mj' [E' [Hb1 Hd1]]]. rewrite Emj in E'. injection E' as <-.
      assert (Hzp : zero_slot (length s) s f = VMsg None) by (destruct (length s); cbn [zero_slot]; rewrite (info_msg s f j Hc Ht), Er, Hp; reflexivity).
      rewrite Hzp in Hz.
      assert (Hnorm : norm_slot g s f (VMsg (Some (fs1, u1))) = VMsg (Some (norm_fields g s j fs1, u1))) by (unfold norm_slot; rewrite Hc, Ht; reflexivity).
      rewrite Hnorm. apply (Hrec _ t _ Hb1 Hl1).
      unfold apply_known. rewrite Hc, Ht, Er, Hp. cbn [t_pay]. rewrite Hz, Hzo. fold enc. rewrite Hd1.
      rewrite clear_unset; [reflexivity|]. intros sib Hsb. destruct (siblings_are_fields m f slot sib Hsb) as [q [Hq <-]].
      apply (Hsib (spec_ld_nonempty _ _) q Hq Hsb).
    + (* nil pointer *)
      assert (Hzp : zero_slot (length s) s f = VMsg None) by (destruct (length s); cbn [zero_slot]; rewrite (info_msg s f j Hc Ht), Er, Hok; reflexivity).
      split; [constructor|]. rewrite (ref_decode_nil s idx m Hm).
      assert (Hnorm : norm_slot g s f (VMsg None) = VMsg None) by (unfold norm_slot; rewrite Hc, Ht; reflexivity).
      rewrite Hnorm, <- Hzp, <- Hz, set_nth_same. reflexivity.
    + (* always-present message *)
      apply andb_true_iff in Hok. destruct Hok as [Hok Hl1]. apply andb_true_iff in Hok. destruct Hok as [Hp Hs1].
      apply andb_true_iff in Hp. destruct Hp as [Hp Hio]. apply negb_true_iff in Hp. apply negb_true_iff in Hio.
      destruct (Hsub fs1 u1 Hs1) as [mj' [E' [Hb1 Hd1]]]. rewrite Emj in E'. injection E' as <-.
      assert (Hno : foneof f = None) by (rewrite info_oneof in Hio; destruct (foneof f); [discriminate Hio|reflexivity]).
      pose proof (Hstable m f j mj Hms Hfin Hc Ht Er Hp Hio Emj) as Hzp. rewrite Hzp in Hz.
      assert (Hnorm : norm_slot g s f (VEmb fs1 u1) = VEmb (norm_fields g s j fs1) u1) by (unfold norm_slot; rewrite Hc, Ht; reflexivity).
      rewrite Hnorm. fold enc.
      destruct (enc j fs1 u1) as [|y0 l0] eqn:Ep.
      * (* empty payload: nothing is written, and the blank value is the normal form *)
        rewrite (sub_nil mj Emj) in Hd1. injection Hd1 as E1 E2.
        split; [constructor|]. rewrite (ref_decode_nil s idx m Hm). rewrite <- E1, <- E2, <- Hz, set_nth_same. reflexivity.
      * apply (Hrec _ t _ Hb1 Hl1).
        unfold apply_known. rewrite Hc, Ht, Er, Hp, Hio. cbn [t_pay]. rewrite Hz. cbv beta iota.
        match goal with |- match ?x with _ => _ end = _ => replace x with (Some (norm_fields g s j fs1, u1)) by (symmetry; exact Hd1) end.
        rewrite (clear_siblings_none m f slot t Hno). reflexivity.
Qed.
End MsgFieldRT.

(* ---------------------------------------------------------------- Timestamp / Duration fields *)
Lemma tokens_field_cons k num v rest : valid_number num = true -> scalar_ok k v = true -> bytes_ok rest ->
  exists tok, tokens (spec_field k num v ++ rest) = (match tokens rest with Some ts => Some (tok :: ts) | None => None end) /\
              t_num tok = num /\ tok_scalar k tok = Some v.
Proof.
  intros Hv Hok Hr. destruct (field_token k num v rest Hv Hok Hr) as [p [n [Ep [En Et]]]].
  eexists. split; [|split; [|exact Et]]; [|reflexivity].
  rewrite tokens_cons by (intros E; apply app_eq_nil in E; destruct E as [E _]; exact (spec_field_nonempty k num v E)).
  rewrite Ep. subst n. destruct (length (spec_field k num v)) eqn:El; [exfalso; destruct (spec_field k num v) eqn:E; [exact (spec_field_nonempty k num v E)|discriminate El]|].
  rewrite <- El. rewrite (skipn_app_l (spec_field k num v) rest _ eq_refl). reflexivity.
Qed.

Lemma spec_field_len_small k num v : (k = KInt64 \/ k = KInt32) -> (length (spec_field k num v) <= 20)%nat.
Proof.
  intros Hk. unfold spec_field, spec_tag. rewrite app_length.
  pose proof (varint7_length_le 10 (num * 8 + wire_of k)) as H1. fold (spec_varint (num * 8 + wire_of k)) in H1.
  assert (H2 : (length (spec_payload k v) <= 10)%nat).
  { destruct Hk as [-> | ->]; cbn [spec_payload]; apply (varint7_length_le 10). }
  lia.
Qed.

Lemma sec_nanos_rt sec nanos : in_sb 64 sec = true -> in_sb 32 nanos = true ->
  bytes_ok (spec_sec_nanos sec nanos) /\ lenb (spec_sec_nanos sec nanos) = true /\ sec_nanos_of (spec_sec_nanos sec nanos) = Some (sec, nanos).
Proof.
  intros Hs Hn. unfold spec_sec_nanos.
  assert (Hb1 : bytes_ok (spec_field KInt64 1 (VInt sec))).
  { unfold spec_field. apply bytes_ok_app; [apply spec_tag_bytes_ok; [lia|cbn; unfold VarintType; lia]|apply spec_payload_bytes_ok; exact Hs]. }
  assert (Hb2 : bytes_ok (spec_field KInt32 2 (VInt nanos))).
  { unfold spec_field. apply bytes_ok_app; [apply spec_tag_bytes_ok; [lia|cbn; unfold VarintType; lia]|apply spec_payload_bytes_ok; exact Hn]. }
  pose proof (spec_field_len_small KInt64 1 (VInt sec) (or_introl eq_refl)) as L1.
  pose proof (spec_field_len_small KInt32 2 (VInt nanos) (or_intror eq_refl)) as L2.
  split; [|split].
  - destruct (sec =? 0), (nanos =? 0); cbn [app]; [constructor|exact Hb2|rewrite app_nil_r; exact Hb1|apply bytes_ok_app; assumption].
  - unfold lenb. apply Z.ltb_lt. change (2 ^ 63) with 9223372036854775808.
    destruct (sec =? 0), (nanos =? 0); cbn [app length]; rewrite ?app_nil_r, ?app_length; lia.
  - rewrite sec_nanos_of_fold.
    destruct (Z.eqb_spec sec 0) as [-> |Hs0]; destruct (Z.eqb_spec nanos 0) as [-> |Hn0]; cbn [app].
    + rewrite tokens_nil. reflexivity.
    + destruct (tokens_field_cons KInt32 2 (VInt nanos) [] eq_refl Hn ltac:(constructor)) as [tok [Et [E1 E2]]]. rewrite app_nil_r in Et.
      rewrite Et, tokens_nil. cbn [fold_opt fold_left]. unfold sn_h, mini_h. rewrite E1. cbn [Z.eqb Pos.eqb]. rewrite E2. reflexivity.
    + destruct (tokens_field_cons KInt64 1 (VInt sec) [] eq_refl Hs ltac:(constructor)) as [tok [Et [E1 E2]]]. rewrite app_nil_r in *.
      rewrite Et, tokens_nil. cbn [fold_opt fold_left]. unfold sn_h, mini_h. rewrite E1. cbn [Z.eqb Pos.eqb]. rewrite E2. reflexivity.
    + destruct (tokens_field_cons KInt32 2 (VInt nanos) [] eq_refl Hn ltac:(constructor)) as [tok2 [Et2 [E21 E22]]]. rewrite app_nil_r in Et2.
      destruct (tokens_field_cons KInt64 1 (VInt sec) (spec_field KInt32 2 (VInt nanos)) eq_refl Hs Hb2) as [tok1 [Et1 [E11 E12]]].
      rewrite Et1, Et2, tokens_nil. cbn [fold_opt fold_left]. unfold sn_h, mini_h. rewrite E11. cbn [Z.eqb Pos.eqb]. rewrite E12. rewrite E21. cbn [Z.eqb Pos.eqb]. rewrite E22. reflexivity.
Qed.

Lemma in_sb_int64 z : in_sb 64 z = true <-> int64 z.
Proof. unfold in_sb, int64. change (2 ^ (64 - 1)) with 9223372036854775808. rewrite andb_true_iff, Z.leb_le, Z.ltb_lt. tauto. Qed.
Lemma in_sb_int32 z : in_sb 32 z = true <-> int32 z.
Proof. unfold in_sb, int32. change (2 ^ (32 - 1)) with 2147483648. rewrite andb_true_iff, Z.leb_le, Z.ltb_lt. tauto. Qed.

(* one Timestamp / Duration value: nothing (zero time) or one record that decodes to the value *)
Lemma cast_elem_rt f num x : f_custom f = CTimestamp \/ f_custom f = CDuration -> cast_elem_ok (cast_of f) x = true ->
  (ref_cast_elem num x = [] /\ is_zero_time x = true) \/
  (is_zero_time x = false /\ exists payload, ref_cast_elem num x = spec_ld num payload /\ bytes_ok payload /\ lenb payload = true /\
                             cast_value (f_custom f) payload = Some x).
Proof.
  intros Hc Hok. unfold cast_of in Hok. destruct Hc as [Hc|Hc]; rewrite Hc in *.
  - destruct x as [| | | | | | |sec nsec|]; try discriminate Hok. cbn [cast_elem_ok] in Hok.
    apply andb_true_iff in Hok. destruct Hok as [Hok H3]. apply andb_true_iff in Hok. destruct Hok as [H1 H2].
    apply Z.leb_le in H2. apply Z.ltb_lt in H3. cbn [ref_cast_elem is_zero_time].
    destruct (time_is_zero sec nsec) eqn:Ez; [left; auto|right]. split; [reflexivity|].
    assert (Hn32 : in_sb 32 nsec = true) by (apply in_sb_int32; unfold int32; lia).
    destruct (sec_nanos_rt sec nsec H1 Hn32) as [Hb [Hl Hd]].
    exists (spec_sec_nanos sec nsec). repeat split; try assumption.
    unfold cast_value. rewrite Hd. unfold time_unix, second.
    replace (nsec <? 0) with false by (symmetry; apply Z.ltb_ge; lia). replace (1000000000 <=? nsec) with false by (symmetry; apply Z.leb_gt; lia). reflexivity.
  - destruct x as [| | | | | | | |d]; try discriminate Hok. cbn [cast_elem_ok] in Hok. cbn [ref_cast_elem is_zero_time]. right. split; [reflexivity|].
    apply in_sb_int64 in Hok. destruct (dur_split_spec d Hok) as [E [A [N [P M]]]]. unfold second.
    assert (Hq : in_sb 64 (Z.quot d 1000000000) = true).
    { apply in_sb_int64. unfold int64 in *. pose proof (Z.quot_rem d 1000000000 ltac:(lia)). lia. }
    assert (Hr : in_sb 32 (Z.rem d 1000000000) = true) by (apply in_sb_int32; exact N).
    destruct (sec_nanos_rt _ _ Hq Hr) as [Hb [Hl Hd]].
    exists (spec_sec_nanos (Z.quot d 1000000000) (Z.rem d 1000000000)). repeat split; try assumption.
    unfold cast_value. rewrite Hd. pose proof (dur_roundtrip d Hok) as Hrt. rewrite E in Hrt. rewrite Hrt. reflexivity.
Qed.

Section CastFieldRT.
Variables (s : schema) (G : nat) (idx : nat) (m : mdesc).
Hypothesis Hm : nth_error s idx = Some m.
Hypothesis Hnd : NoDup (map fnum (mfields m)).
Variable rr : nat -> list val -> bytes -> bytes.

Definition cast_keep (e : val) : bool :=
  match e with VOpt None => false | VOpt (Some x) => negb (is_zero_time x) | x => negb (is_zero_time x) end.

Lemma cast_rt slot f fs : In (slot, f) (number_from 0 (mfields m)) ->
  f_custom f = CTimestamp \/ f_custom f = CDuration -> valid_number (fnum f) = true ->
  (foneof f <> None -> i_repeated (field_info s f) = false) ->
  cast_slot_ok s f (nth slot fs (VInt 0)) = true ->
  field_rt s G idx m (ref_slot rr) (norm_slot 0 s) (zero_slot (length s) s) fs (slot, f).
Proof.
  intros Hin Hc Hv Hone Hok t u Hz Hsib. cbn [fst snd] in *.
  assert (Hvn : 0 <= fnum f) by (unfold valid_number in Hv; apply andb_true_iff in Hv; destruct Hv as [H1 _]; apply Z.leb_le in H1; lia).
  assert (Henc : forall v, ref_slot rr f v = ref_cast_slot (fnum f) v) by (intros v; unfold ref_slot; destruct Hc as [-> | ->]; reflexivity).
  rewrite Henc in *.
  assert (Hk : forall payload t0 x, cast_value (f_custom f) payload = Some x ->
             apply_known s (ref_decode G s) m slot f {| t_num := fnum f; t_wt := 2; t_pay := PBytes payload; t_raw := spec_varint (Z.of_nat (length payload)) ++ payload |} t0 =
             Some (set_nth (clear_siblings m f slot t0) slot
                     (if i_repeated (field_info s f) then VList (as_list (nth slot t0 (VInt 0)) ++ [if i_pointer (field_info s f) then VOpt (Some x) else x])
                      else if i_oneof (field_info s f) || i_pointer (field_info s f) then VOpt (Some x) else x))).
  { intros payload t0 x Hcv. unfold apply_known. destruct Hc as [Hc|Hc]; rewrite Hc in *; cbn [t_pay]; rewrite Hcv;
      destruct (i_repeated (field_info s f)); try reflexivity; destruct (i_oneof (field_info s f) || i_pointer (field_info s f)); reflexivity. }
  assert (Hrec : forall payload t0 r, bytes_ok payload -> lenb payload = true ->
            apply_known s (ref_decode G s) m slot f {| t_num := fnum f; t_wt := 2; t_pay := PBytes payload; t_raw := spec_varint (Z.of_nat (length payload)) ++ payload |} t0 = Some r ->
            bytes_ok (spec_ld (fnum f) payload) /\ ref_decode (S G) s idx (spec_ld (fnum f) payload) (t0, u) = Some (r, u)).
  { intros payload t0 r Hbp Hlp Ha. split; [apply spec_ld_bytes_ok; assumption|].
    pose proof (ld_token (fnum f) payload [] Hv Hbp Hlp ltac:(constructor)) as Ep. rewrite app_nil_r in Ep.
    apply (decode_one_token s G idx m Hm Hnd slot f _ _ t0 u r Hin (tokens_single _ _ (spec_ld_nonempty _ _) Ep) eq_refl Ha). }
  pose proof (info_oneof s f) as Hio.
  assert (Hzs : zero_slot (length s) s f = if i_repeated (field_info s f) then VList [] else
                  if i_oneof (field_info s f) || i_pointer (field_info s f) then VOpt None else
                  match f_custom f with CTimestamp => VTime zero_time_sec 0 | _ => VDur 0 end).
  { destruct (length s); cbn [zero_slot]; rewrite (info_cast s f Hc); destruct Hc as [-> | ->];
      destruct (i_repeated (field_info s f)); try reflexivity; destruct (i_oneof (field_info s f)); try reflexivity;
      destruct (i_pointer (field_info s f)); reflexivity. }
  rewrite Hzs in Hz. unfold cast_slot_ok in Hok.
  destruct (i_repeated (field_info s f)) eqn:Er.
  - (* slices *)
    assert (Hno : foneof f = None) by (destruct (foneof f) eqn:E; [specialize (Hone ltac:(congruence)); congruence|reflexivity]).
    destruct (nth slot fs (VInt 0)) as [| | |l| | | | |] eqn:Ev; try discriminate Hok. cbn [ref_cast_slot].
    assert (Hnorm : norm_slot 0 s f (VList l) = VList (filter cast_keep l)) by (unfold norm_slot; destruct Hc as [-> | ->]; reflexivity).
    rewrite Hnorm.
    set (ebytes := fun e : val => match e with VOpt (Some x) => ref_cast_elem (fnum f) x | VOpt None => [] | x => ref_cast_elem (fnum f) x end).
    assert (Gl : forall l0 acc t0, forallb (if i_pointer (field_info s f) then cast_opt_ok (cast_of f) else cast_elem_ok (cast_of f)) l0 = true ->
              nth slot t0 (VInt 0) = VList acc -> (slot < length t0)%nat ->
              bytes_ok (flat_map ebytes l0) /\
              ref_decode (S G) s idx (flat_map ebytes l0) (t0, u) = Some (set_nth t0 slot (VList (acc ++ filter cast_keep l0)), u)).
    { induction l0 as [|e l0 IH]; intros acc t0 Hal Hn Hsl.
      - split; [constructor|]. cbn [flat_map filter]. rewrite (ref_decode_nil s idx m Hm), app_nil_r, <- Hn, set_nth_same. reflexivity.
      - cbn [flat_map forallb filter] in *. apply andb_true_iff in Hal. destruct Hal as [He Hal].
        (* the element: written or skipped *)
        assert (Hel : (ebytes e = [] /\ cast_keep e = false) \/
                      (cast_keep e = true /\ exists payload x, ebytes e = spec_ld (fnum f) payload /\ bytes_ok payload /\ lenb payload = true /\
                          cast_value (f_custom f) payload = Some x /\ (if i_pointer (field_info s f) then VOpt (Some x) else x) = e)).
        { destruct (i_pointer (field_info s f)) eqn:Ep.
          - unfold cast_opt_ok in He. destruct e as [| |[x|]| | | | | |]; try discriminate He; [|left; auto].
            cbn [ebytes cast_keep]. destruct (cast_elem_rt f (fnum f) x Hc He) as [[E1 E2]|[E2 [payload [E1 [Hb [Hl Hcv]]]]]].
            + left. rewrite E2. auto.
            + right. rewrite E2. split; [reflexivity|]. exists payload, x. auto.
          - assert (Hne : match e with VOpt _ => False | _ => True end) by (destruct e; try exact I; unfold cast_of in He; destruct Hc as [Hc|Hc]; rewrite Hc in He; discriminate He).
            assert (Heb : ebytes e = ref_cast_elem (fnum f) e) by (destruct e as [| |o| | | | | |]; try reflexivity; destruct Hne).
            assert (Hck : cast_keep e = negb (is_zero_time e)) by (destruct e as [| |o| | | | | |]; try reflexivity; destruct Hne).
            rewrite Heb, Hck. destruct (cast_elem_rt f (fnum f) e Hc He) as [[E1 E2]|[E2 [payload [E1 [Hb [Hl Hcv]]]]]].
            + left. rewrite E2. auto.
            + right. rewrite E2. split; [reflexivity|]. exists payload, e. auto. }
        destruct Hel as [[E1 E2]|[E2 [payload [x [E1 [Hbp [Hlp [Hcv Hex]]]]]]]]; rewrite E1, E2.
        * cbn [app]. apply IH; assumption.
        * destruct (Hrec payload t0 _ Hbp Hlp (Hk payload t0 x Hcv)) as [Hb1 Hd1]. rewrite (clear_siblings_none m f slot t0 Hno), Hn, Hex in Hd1. cbn [as_list] in Hd1.
          destruct (IH (acc ++ [e]) (set_nth t0 slot (VList (acc ++ [e]))) Hal ltac:(apply nth_set_nth_in; exact Hsl) ltac:(rewrite set_nth_length; exact Hsl)) as [Hb2 Hd2].
          split; [apply bytes_ok_app; assumption|].
          rewrite (ref_decode_app (S G) s idx _ _ (t0, u) _ Hb1 Hd1), Hd2. rewrite set_nth_set_nth, <- app_assoc. reflexivity. }
    destruct (Nat.lt_ge_cases slot (length t)) as [Hsl|Hsl]; [|exfalso; rewrite nth_overflow in Hz by exact Hsl; discriminate Hz].
    destruct (Gl l [] t Hok Hz Hsl) as [Hb Hd]. split; [exact Hb|exact Hd].
  - destruct (i_oneof (field_info s f) || i_pointer (field_info s f)) eqn:Ebox.
    + (* pointer or oneof member *)
      unfold cast_opt_ok in Hok. destruct (nth slot fs (VInt 0)) as [| |[x|]| | | | | |] eqn:Ev; try discriminate Hok; cbn [ref_cast_slot].
      * destruct (cast_elem_rt f (fnum f) x Hc Hok) as [[E1 E2]|[E2 [payload [E1 [Hb [Hl Hcv]]]]]].
        -- rewrite E1. split; [constructor|]. rewrite (ref_decode_nil s idx m Hm).
           assert (Hnorm : norm_slot 0 s f (VOpt (Some x)) = VOpt None) by (unfold norm_slot; destruct Hc as [-> | ->]; rewrite E2; reflexivity).
           rewrite Hnorm, <- Hz, set_nth_same. reflexivity.
        -- rewrite E1.
           assert (Hnorm : norm_slot 0 s f (VOpt (Some x)) = VOpt (Some x)) by (unfold norm_slot; destruct Hc as [-> | ->]; rewrite E2; reflexivity).
           rewrite Hnorm. destruct (Hrec payload t _ Hb Hl (Hk payload t x Hcv)) as [Hb1 Hd1]. split; [exact Hb1|]. rewrite Hd1.
           rewrite clear_unset; [reflexivity|]. intros sib Hsb. destruct (siblings_are_fields m f slot sib Hsb) as [q [Hq <-]].
           apply (Hsib ltac:(cbn [ref_cast_slot]; rewrite E1; apply spec_ld_nonempty) q Hq Hsb).
      * split; [constructor|]. rewrite (ref_decode_nil s idx m Hm).
        assert (Hnorm : norm_slot 0 s f (VOpt None) = VOpt None) by (unfold norm_slot; destruct Hc as [-> | ->]; reflexivity).
        rewrite Hnorm, <- Hz, set_nth_same. reflexivity.
    + (* plain value *)
      assert (Hno : foneof f = None).
      { rewrite Hio in Ebox. destruct (foneof f); [discriminate Ebox|reflexivity]. }
      assert (Hne : match nth slot fs (VInt 0) with VOpt _ | VList _ => False | _ => True end).
      { destruct (nth slot fs (VInt 0)); try exact I; unfold cast_of in Hok; destruct Hc as [Hc|Hc]; rewrite Hc in Hok; discriminate Hok. }
      assert (Hsl : ref_cast_slot (fnum f) (nth slot fs (VInt 0)) = ref_cast_elem (fnum f) (nth slot fs (VInt 0))).
      { destruct (nth slot fs (VInt 0)); try reflexivity; destruct Hne. }
      assert (Hnorm : norm_slot 0 s f (nth slot fs (VInt 0)) = nth slot fs (VInt 0)).
      { unfold norm_slot. destruct (nth slot fs (VInt 0)); try (destruct Hne); destruct Hc as [-> | ->]; reflexivity. }
      rewrite Hsl, Hnorm in *.
      destruct (cast_elem_rt f (fnum f) _ Hc Hok) as [[E1 E2]|[E2 [payload [E1 [Hb [Hl Hcv]]]]]].
      * rewrite E1. split; [constructor|]. rewrite (ref_decode_nil s idx m Hm).
        assert (Ezero : nth slot fs (VInt 0) = match f_custom f with CTimestamp => VTime zero_time_sec 0 | _ => VDur 0 end).
        { destruct (nth slot fs (VInt 0)) as [| | | | | | |sec nsec|d]; try discriminate E2. cbn [is_zero_time] in E2. unfold time_is_zero in E2.
          apply andb_true_iff in E2. destruct E2 as [A B]. apply Z.eqb_eq in A. apply Z.eqb_eq in B. subst.
          unfold cast_of in Hok. destruct Hc as [Hc|Hc]; rewrite Hc in *; [reflexivity|discriminate Hok]. }
        rewrite Ezero, <- Hz, set_nth_same. reflexivity.
      * rewrite E1 in *. destruct (Hrec payload t _ Hb Hl (Hk payload t _ Hcv)) as [Hb1 Hd1]. split; [exact Hb1|]. rewrite Hd1.
        rewrite (clear_siblings_none m f slot t Hno). reflexivity.
Qed.
End CastFieldRT.

(* ---------------------------------------------------------------- map fields *)
Lemma entry_rt kk vk k v : scalar_ok kk k = true -> scalar_ok vk v = true ->
  bytes_ok (entry_payload kk vk (k, v)) /\ map_entry_of kk vk (entry_payload kk vk (k, v)) = Some (k, v).
Proof.
  intros Hk Hv. unfold entry_payload. cbn [fst snd].
  assert (Hb1 : bytes_ok (spec_field kk 1 k)).
  { unfold spec_field. apply bytes_ok_app; [apply spec_tag_bytes_ok; [lia|pose proof (wire_of_range kk); lia]|apply spec_payload_bytes_ok; exact Hk]. }
  assert (Hb2 : bytes_ok (spec_field vk 2 v)).
  { unfold spec_field. apply bytes_ok_app; [apply spec_tag_bytes_ok; [lia|pose proof (wire_of_range vk); lia]|apply spec_payload_bytes_ok; exact Hv]. }
  split.
  - destruct (spec_default kk k), (spec_default vk v); cbn [app]; [constructor|exact Hb2|rewrite app_nil_r; exact Hb1|apply bytes_ok_app; assumption].
  - rewrite map_entry_of_fold.
    destruct (spec_default kk k) eqn:Dk; destruct (spec_default vk v) eqn:Dv; cbn [app].
    + rewrite tokens_nil. cbn. rewrite (default_is_zero kk k Hk Dk), (default_is_zero vk v Hv Dv). reflexivity.
    + destruct (tokens_field_cons vk 2 v [] eq_refl Hv ltac:(constructor)) as [tok [Et [E1 E2]]]. rewrite app_nil_r in Et.
      rewrite Et, tokens_nil. cbn [fold_opt fold_left]. unfold me_h, mini_h. rewrite E1. cbn [Z.eqb Pos.eqb]. rewrite E2.
      rewrite (default_is_zero kk k Hk Dk). reflexivity.
    + destruct (tokens_field_cons kk 1 k [] eq_refl Hk ltac:(constructor)) as [tok [Et [E1 E2]]]. rewrite app_nil_r in *.
      rewrite Et, tokens_nil. cbn [fold_opt fold_left]. unfold me_h, mini_h. rewrite E1. cbn [Z.eqb Pos.eqb]. rewrite E2.
      rewrite (default_is_zero vk v Hv Dv). reflexivity.
    + destruct (tokens_field_cons vk 2 v [] eq_refl Hv ltac:(constructor)) as [tok2 [Et2 [E21 E22]]]. rewrite app_nil_r in Et2.
      destruct (tokens_field_cons kk 1 k (spec_field vk 2 v) eq_refl Hk Hb2) as [tok1 [Et1 [E11 E12]]].
      rewrite Et1, Et2, tokens_nil. cbn [fold_opt fold_left]. unfold me_h, mini_h. rewrite E11. cbn [Z.eqb Pos.eqb]. rewrite E12. rewrite E21. cbn [Z.eqb Pos.eqb]. rewrite E22. reflexivity.
Qed.

Section MapFieldRT.
Variables (s : schema) (G : nat) (idx : nat) (m : mdesc).
Hypothesis Hm : nth_error s idx = Some m.
Hypothesis Hnd : NoDup (map fnum (mfields m)).
Variable rr : nat -> list val -> bytes -> bytes.

Lemma map_rt kk vk slot f fs : In (slot, f) (number_from 0 (mfields m)) ->
  f_custom f = CNone -> fty f = TMap kk vk -> foneof f = None -> valid_number (fnum f) = true ->
  map_slot_ok kk vk (nth slot fs (VInt 0)) = true ->
  field_rt s G idx m (ref_slot rr) (fun _ v => v) (fun _ => VMap []) fs (slot, f).
Proof.
  intros Hin Hc Ht Hno Hv Hok t u Hz _. cbn [fst snd] in *.
  assert (Hvn : 0 <= fnum f) by (unfold valid_number in Hv; apply andb_true_iff in Hv; destruct Hv as [H1 _]; apply Z.leb_le in H1; lia).
  unfold map_slot_ok in Hok. destruct (nth slot fs (VInt 0)) as [| | | | | |l| |] eqn:Ev; try discriminate Hok.
  apply andb_true_iff in Hok. destruct Hok as [Hall Hfresh].
  assert (Henc : ref_slot rr f (VMap l) = flat_map (fun e => spec_ld (fnum f) (entry_payload kk vk e)) l).
  { unfold ref_slot. rewrite Hc, Ht. reflexivity. }
  rewrite Henc.
  assert (Hk : forall payload t0 k v, map_entry_of kk vk payload = Some (k, v) ->
             apply_known s (ref_decode G s) m slot f {| t_num := fnum f; t_wt := 2; t_pay := PBytes payload; t_raw := spec_varint (Z.of_nat (length payload)) ++ payload |} t0 =
             Some (set_nth t0 slot (VMap (spec_map_set (match nth slot t0 (VInt 0) with VMap l0 => l0 | _ => [] end) k v)))).
  { intros payload t0 k v Hme. unfold apply_known. rewrite Hc, Ht. cbn [t_pay]. rewrite Hme, (clear_siblings_none m f slot t0 Hno). reflexivity. }
  assert (Gl : forall l0 acc t0, forallb (fun e => scalar_ok kk (fst e) && scalar_ok vk (snd e) && lenb (entry_payload kk vk e)) l0 = true ->
            keys_fresh acc l0 = true -> nth slot t0 (VInt 0) = VMap acc -> (slot < length t0)%nat ->
            bytes_ok (flat_map (fun e => spec_ld (fnum f) (entry_payload kk vk e)) l0) /\
            ref_decode (S G) s idx (flat_map (fun e => spec_ld (fnum f) (entry_payload kk vk e)) l0) (t0, u) = Some (set_nth t0 slot (VMap (acc ++ l0)), u)).
  { induction l0 as [|[k v] l0 IH]; intros acc t0 Hal Hfr Hn Hsl.
    - split; [constructor|]. cbn [flat_map]. rewrite (ref_decode_nil s idx m Hm), app_nil_r, <- Hn, set_nth_same. reflexivity.
    - cbn [flat_map forallb keys_fresh fst snd] in *. apply andb_true_iff in Hal. destruct Hal as [He Hal].
      apply andb_true_iff in He. destruct He as [He Hlen]. apply andb_true_iff in He. destruct He as [Hkk Hvk].
      apply andb_true_iff in Hfr. destruct Hfr as [Hnew Hfr]. apply negb_true_iff in Hnew.
      destruct (entry_rt kk vk k v Hkk Hvk) as [Hbp Hme].
      assert (Hb1 : bytes_ok (spec_ld (fnum f) (entry_payload kk vk (k, v)))) by (apply spec_ld_bytes_ok; assumption).
      assert (Hd1 : ref_decode (S G) s idx (spec_ld (fnum f) (entry_payload kk vk (k, v))) (t0, u) = Some (set_nth t0 slot (VMap (acc ++ [(k, v)])), u)).
      { pose proof (ld_token (fnum f) (entry_payload kk vk (k, v)) [] Hv Hbp Hlen ltac:(constructor)) as Ep. rewrite app_nil_r in Ep.
        apply (decode_one_token s G idx m Hm Hnd slot f _ _ t0 u _ Hin (tokens_single _ _ (spec_ld_nonempty _ _) Ep) eq_refl).
        rewrite (Hk _ t0 k v Hme), Hn. unfold spec_map_set. rewrite Hnew. reflexivity. }
      destruct (IH (acc ++ [(k, v)]) (set_nth t0 slot (VMap (acc ++ [(k, v)]))) Hal Hfr ltac:(apply nth_set_nth_in; exact Hsl) ltac:(rewrite set_nth_length; exact Hsl)) as [Hb2 Hd2].
      split; [apply bytes_ok_app; assumption|].
      rewrite (ref_decode_app (S G) s idx _ _ (t0, u) _ Hb1 Hd1), Hd2. rewrite set_nth_set_nth, <- app_assoc. reflexivity. }
  destruct (Nat.lt_ge_cases slot (length t)) as [Hsl|Hsl]; [|exfalso; rewrite nth_overflow in Hz by exact Hsl; discriminate Hz].
  destruct (Gl l [] t Hall Hfresh Hz Hsl) as [Hb Hd]. split; [exact Hb|exact Hd].
Qed.
End MapFieldRT.

(* ---------------------------------------------------------------- the round trip, by induction on the nesting of the value *)
Section Top.
Variable s : schema.
Variable good : nat -> bool.
Hypothesis Hgood : good_set s good.
Hypothesis Hstable : zero_stable s.
Hypothesis Hidx : msg_idx_ok s.

Definition rt_stmt (g : nat) : Prop := forall idx fs un m G, good idx = true -> nth_error s idx = Some m -> rt_ok g s idx fs un = true -> (g <= G)%nat ->
  bytes_ok (ref_encode g s idx fs un) /\
  ref_decode (S G) s idx (ref_encode g s idx fs un) (zero_fields s m, []) = Some (norm_fields g s idx fs, un).

Lemma rt_ok_idx g j fs1 u1 : rt_ok g s j fs1 u1 = true -> exists mj, nth_error s j = Some mj.
Proof. destruct g; [discriminate|]. cbn [rt_ok]. destruct (nth_error s j) as [mj|]; [exists mj; reflexivity|discriminate]. Qed.

Lemma field_dispatch g G idx m fs : good idx = true -> nth_error s idx = Some m -> (S g <= G)%nat -> rt_stmt g ->
  forall p, In p (number_from 0 (mfields m)) ->
  slot_rt_ok s (rt_ok g s) (ref_encode g s) (snd p) (nth (fst p) fs (VInt 0)) = true ->
  field_rt s G idx m (ref_slot (ref_encode g s)) (norm_slot g s) (zero_slot (length s) s) fs p.
Proof.
  intros Hgi Hm HG IH [slot f] Hin Hok. cbn [fst snd] in *.
  destruct (Hgood idx m Hgi Hm) as [[Hnd Hf] [Hsup Hcl]]. pose proof (nth_error_In _ _ Hm) as Hms.
  pose proof (number_from_In _ _ _ Hin) as Hfin. destruct (Hf f Hfin) as [Hv Hnop].
  pose proof (Hsup f Hfin) as Hs.
  unfold slot_rt_ok in Hok.
  destruct (f_custom f) eqn:Hc; try discriminate Hok.
  - destruct (fty f) as [k| |j|kk vk|] eqn:Ht; try discriminate Hok.
    + (* scalar *)
      destruct (i_repeated (field_info s f)) eqn:Er.
      * assert (Hno : foneof f = None).
        { destruct Hs as [[_ [[_ [Hl|Hno]]|[[j [E _]]|[kk [vk [E _]]]]]]|[[E|E] _]]; try congruence.
          exfalso. unfold field_info in Er. destruct (flabel f); try congruence; rewrite Ht in Er; destruct (is_bytes_kind k); discriminate Er. }
        apply (field_rt_ext s G idx m (ref_slot (ref_encode g s)) _ (fun _ v => v) _ (fun _ => VList []) _ fs (slot, f)); cbn [fst snd];
          [reflexivity|symmetry; apply norm_slot_scalar; [exact Hc|left; exists k; exact Ht]|
           rewrite (zero_slot_scalar _ s f k Hc (or_introl Ht)), Er; reflexivity|].
        apply (scalar_rep_rt s G idx m Hm Hnd (ref_encode g s) k slot f fs Hin Hc (or_introl Ht) Er Hno Hv Hok).
      * apply (field_rt_ext s G idx m (ref_slot (ref_encode g s)) _ (fun _ v => v) _
                 (fun f0 => if i_oneof (field_info s f0) || i_pointer (field_info s f0) then VOpt None else zero_scalar k) _ fs (slot, f)); cbn [fst snd];
          [reflexivity|symmetry; apply norm_slot_scalar; [exact Hc|left; exists k; exact Ht]|
           rewrite (zero_slot_scalar _ s f k Hc (or_introl Ht)), Er; reflexivity|].
        apply (scalar_single_rt s G idx m Hm Hnd (ref_encode g s) k slot f fs Hin Hc (or_introl Ht) Er Hv Hok).
    + (* enum *)
      apply andb_true_iff in Hok. destruct Hok as [Hp Hok]. apply negb_true_iff in Hp.
      destruct (i_repeated (field_info s f)) eqn:Er.
      * assert (Hno : foneof f = None).
        { destruct Hs as [[_ [[_ [Hl|Hno]]|[[j [E _]]|[kk [vk [E _]]]]]]|[[E|E] _]]; try congruence.
          exfalso. unfold field_info in Er. destruct (flabel f); try congruence; rewrite Ht in Er; discriminate Er. }
        apply (field_rt_ext s G idx m (ref_slot (ref_encode g s)) _ (fun _ v => v) _ (fun _ => VList []) _ fs (slot, f)); cbn [fst snd];
          [reflexivity|symmetry; apply norm_slot_scalar; [exact Hc|right; exact Ht]|
           rewrite (zero_slot_scalar _ s f KInt32 Hc (or_intror (conj Ht (conj eq_refl Hp)))), Er; reflexivity|].
        apply (scalar_rep_rt s G idx m Hm Hnd (ref_encode g s) KInt32 slot f fs Hin Hc (or_intror (conj Ht eq_refl)) Er Hno Hv Hok).
      * apply (field_rt_ext s G idx m (ref_slot (ref_encode g s)) _ (fun _ v => v) _
                 (fun f0 => if i_oneof (field_info s f0) || i_pointer (field_info s f0) then VOpt None else zero_scalar KInt32) _ fs (slot, f)); cbn [fst snd];
          [reflexivity|symmetry; apply norm_slot_scalar; [exact Hc|right; exact Ht]|
           rewrite (zero_slot_scalar _ s f KInt32 Hc (or_intror (conj Ht (conj eq_refl Hp)))), Er; reflexivity|].
        apply (scalar_single_rt s G idx m Hm Hnd (ref_encode g s) KInt32 slot f fs Hin Hc (or_intror (conj Ht eq_refl)) Er Hv Hok).
    + (* message *)
      pose proof (Hcl f j Hfin Ht) as Hgj.
      assert (Hsub : forall fs1 u1, rt_ok g s j fs1 u1 = true -> exists mj, nth_error s j = Some mj /\
                bytes_ok (ref_encode g s j fs1 u1) /\ ref_decode G s j (ref_encode g s j fs1 u1) (zero_fields s mj, []) = Some (norm_fields g s j fs1, u1)).
      { intros fs1 u1 H1. destruct (rt_ok_idx g j fs1 u1 H1) as [mj Emj]. exists mj. split; [exact Emj|].
        destruct G as [|G']; [lia|]. apply (IH j fs1 u1 mj G' Hgj Emj H1). lia. }
      apply (msg_rt s G idx m Hm Hnd g j Hsub Hstable Hidx ltac:(lia) slot f fs Hin Hms Hc Ht Hv); [|exact Hok].
      intros Ho. destruct Hs as [[_ [[[k [Hk|[Hk _]]] _]|[[j' [Ht' [Hl|[Hl Hno]]]]|[kk [vk [Ht' _]]]]]]|[[E|E] _]]; try congruence.
      apply info_not_repeated, Hl.
    + (* map *)
      assert (Hno : foneof f = None).
      { destruct Hs as [[_ [[[k [Hk|[Hk _]]] _]|[[j' [Ht' _]]|[kk' [vk' [Ht' Hno]]]]]]|[[E|E] _]]; try congruence. }
      apply (field_rt_ext s G idx m (ref_slot (ref_encode g s)) _ (fun _ v => v) _ (fun _ => VMap []) _ fs (slot, f)); cbn [fst snd];
        [reflexivity|unfold norm_slot; rewrite Hc, Ht; reflexivity| |].
      * destruct (length s); cbn [zero_slot]; unfold field_info; rewrite Hc, Ht; destruct (flabel f); reflexivity.
      * apply (map_rt s G idx m Hm Hnd (ref_encode g s) kk vk slot f fs Hin Hc Ht Hno Hv Hok).
  - (* Timestamp *)
    assert (Hcc : f_custom f = CTimestamp \/ f_custom f = CDuration) by (left; exact Hc).
    assert (Hor : foneof f <> None -> i_repeated (field_info s f) = false).
    { destruct Hs as [[E _]|[_ Hor]]; [congruence|exact Hor]. }
    assert (Hok' : cast_slot_ok s f (nth slot fs (VInt 0)) = true) by (destruct (fty f); exact Hok).
    apply (field_rt_ext s G idx m (ref_slot (ref_encode g s)) _ (norm_slot 0 s) _ (zero_slot (length s) s) _ fs (slot, f)); cbn [fst snd];
      [reflexivity|unfold norm_slot; rewrite Hc; reflexivity|reflexivity|].
    apply (cast_rt s G idx m Hm Hnd (ref_encode g s) slot f fs Hin Hcc Hv Hor Hok').
  - (* Duration *)
    assert (Hcc : f_custom f = CTimestamp \/ f_custom f = CDuration) by (right; exact Hc).
    assert (Hor : foneof f <> None -> i_repeated (field_info s f) = false).
    { destruct Hs as [[E _]|[_ Hor]]; [congruence|exact Hor]. }
    assert (Hok' : cast_slot_ok s f (nth slot fs (VInt 0)) = true) by (destruct (fty f); exact Hok).
    apply (field_rt_ext s G idx m (ref_slot (ref_encode g s)) _ (norm_slot 0 s) _ (zero_slot (length s) s) _ fs (slot, f)); cbn [fst snd];
      [reflexivity|unfold norm_slot; rewrite Hc; reflexivity|reflexivity|].
    apply (cast_rt s G idx m Hm Hnd (ref_encode g s) slot f fs Hin Hcc Hv Hor Hok').
Qed.

(* oneof members: typed values are a set member or the unset form, and unset members write nothing *)
Lemma oneof_member_forms g sub f v : supported s f -> foneof f <> None ->
  slot_rt_ok s sub (ref_encode g s) f v = true ->
  is_set v = false -> ref_slot (ref_encode g s) f v = [] /\ norm_slot g s f v = v /\ unset v.
Proof.
  intros Hs Ho Hok Hns. unfold slot_rt_ok in Hok.
  destruct (f_custom f) eqn:Hc; try discriminate Hok.
  destruct (fty f) as [k| |j|kk vk|] eqn:Ht; try discriminate Hok.
  - assert (Hr : i_repeated (field_info s f) = false).
    { destruct Hs as [[_ [[_ [Hl|Hno]]|[[j [E _]]|[kk [vk [E _]]]]]]|[[E|E] _]]; try congruence. apply info_not_repeated, Hl. }
    unfold scalar_slot_ok in Hok. rewrite Hr, info_oneof in Hok. destruct (foneof f); [|congruence]. cbn [orb] in Hok.
    destruct v as [| |[x|]| | | | | |]; try discriminate Hok; [discriminate Hns|].
    unfold ref_slot, norm_slot. rewrite Hc, Ht. cbn. repeat split. left; reflexivity.
  - apply andb_true_iff in Hok. destruct Hok as [_ Hok].
    assert (Hr : i_repeated (field_info s f) = false).
    { destruct Hs as [[_ [[_ [Hl|Hno]]|[[j [E _]]|[kk [vk [E _]]]]]]|[[E|E] _]]; try congruence. apply info_not_repeated, Hl. }
    unfold scalar_slot_ok in Hok. rewrite Hr, info_oneof in Hok. destruct (foneof f); [|congruence]. cbn [orb] in Hok.
    destruct v as [| |[x|]| | | | | |]; try discriminate Hok; [discriminate Hns|].
    unfold ref_slot, norm_slot. rewrite Hc, Ht. cbn. repeat split. left; reflexivity.
  - (* message member: a pointer, or held by value in the wrapper *)
    assert (Hr : i_repeated (field_info s f) = false).
    { destruct Hs as [[_ [[[k [Hk|[Hk _]]] _]|[[j' [Ht' [Hl|[Hl Hno]]]]|[kk [vk [Ht' _]]]]]]|[[E|E] _]]; try congruence.
      apply info_not_repeated, Hl. }
    assert (Hio : i_oneof (field_info s f) = true) by (rewrite info_oneof; destruct (foneof f); [reflexivity|congruence]).
    unfold msg_slot_ok in Hok. rewrite Hr in Hok. unfold msg_elem_ok in Hok. rewrite Hio in Hok.
    destruct v as [| |[x|]| |[[fs1 u1]|]|fs1 u1| | |]; try discriminate Hok; try discriminate Hns.
    + unfold ref_slot, norm_slot. rewrite Hc, Ht. cbn. repeat split. left; reflexivity.
    + unfold ref_slot, norm_slot. rewrite Hc, Ht. cbn. repeat split. right; reflexivity.
    + exfalso. cbn [negb] in Hok. rewrite andb_false_r in Hok. discriminate Hok.
  - (* maps are never oneof members *)
    exfalso. destruct Hs as [[_ [[[k [Hk|[Hk _]]] _]|[[j' [Ht' _]]|[kk' [vk' [Ht' Hno]]]]]]|[[E|E] _]]; congruence.
  - (* Timestamp member *)
    assert (Hok' : cast_slot_ok s f v = true) by (destruct (fty f); exact Hok).
    assert (Hr : i_repeated (field_info s f) = false) by (destruct Hs as [[E _]|[_ Hor]]; [congruence|apply Hor, Ho]).
    unfold cast_slot_ok in Hok'. rewrite Hr, info_oneof in Hok'. destruct (foneof f); [|congruence]. cbn [orb] in Hok'. unfold cast_opt_ok in Hok'.
    destruct v as [| |[x|]| | | | | |]; try discriminate Hok'; [discriminate Hns|].
    unfold ref_slot, norm_slot. rewrite Hc. cbn. repeat split. left; reflexivity.
  - (* Duration member *)
    assert (Hok' : cast_slot_ok s f v = true) by (destruct (fty f); exact Hok).
    assert (Hr : i_repeated (field_info s f) = false) by (destruct Hs as [[E _]|[_ Hor]]; [congruence|apply Hor, Ho]).
    unfold cast_slot_ok in Hok'. rewrite Hr, info_oneof in Hok'. destruct (foneof f); [|congruence]. cbn [orb] in Hok'. unfold cast_opt_ok in Hok'.
    destruct v as [| |[x|]| | | | | |]; try discriminate Hok'; [discriminate Hns|].
    unfold ref_slot, norm_slot. rewrite Hc. cbn. repeat split. left; reflexivity.
Qed.

Lemma oneof_member_zero n f : supported s f -> foneof f <> None -> unset (zero_slot n s f).
Proof.
  intros Hs Ho. pose proof (info_oneof s f) as Hone. destruct (foneof f) as [o|] eqn:Eo; [|congruence].
  destruct Hs as [[Hc [[[k Hk] [Hl|Hno]]|[[j [Ht [Hl|[Hl Hno]]]]|[kk [vk [Ht Hno]]]]]]|[Hc Hor]]; try congruence.
  - pose proof (info_not_repeated s f Hl) as Hr.
    assert (Hpt : i_pointer (field_info s f) = false).
    { apply info_oneof_nonmsg_ptr; [rewrite Eo; discriminate|]. intros idx. destruct Hk as [Hk|[Hk _]]; rewrite Hk; discriminate. }
    rewrite (zero_slot_scalar n s f k Hc); [rewrite Hr, Hone; left; reflexivity|].
    destruct Hk as [Hk|[Hk Ek]]; [left; exact Hk|right; auto].
  - pose proof (info_not_repeated s f Hl) as Hr.
    destruct (i_pointer (field_info s f)) eqn:Hp.
    + destruct n; cbn [zero_slot]; rewrite (info_msg s f j Hc Ht), Hr, Hp; right; reflexivity.
    + destruct n; cbn [zero_slot]; rewrite (info_msg s f j Hc Ht), Hr, Hp, Hone; left; reflexivity.
  - specialize (Hor ltac:(congruence)).
    destruct n; cbn [zero_slot]; rewrite (info_cast s f Hc), Hor, Hone;
      destruct Hc as [-> | ->]; left; reflexivity.
Qed.

Lemma sorted_nodup_fst (m : mdesc) : NoDup (map fst (sort_by_num (number_from 0 (mfields m)))).
Proof.
  apply (Permutation_NoDup (l := map (@fst nat fdesc) (number_from 0 (mfields m)))).
  - apply Permutation_map, Permutation_sym, sort_by_num_perm.
  - apply number_from_NoDup_fst.
Qed.

Theorem ref_round_trip_all : forall g, rt_stmt g.
Proof.
  induction g as [|g IH]; intros idx fs un m G Hgi Hm Hok HG; [discriminate Hok|].
  destruct (Hgood idx m Hgi Hm) as [[Hnd0 Hf0] [Hsup Hcl]]. pose proof (nth_error_In _ _ Hm) as Hms.
  cbn [rt_ok] in Hok. rewrite Hm in Hok. apply andb_true_iff in Hok. destruct Hok as [Hok Hun].
  apply andb_true_iff in Hok. destruct Hok as [Hok Hone]. apply andb_true_iff in Hok. destruct Hok as [Hlen Hslots].
  apply Nat.eqb_eq in Hlen. rewrite forallb_forall in Hslots.
  cbn [ref_encode]. rewrite Hm.
  set (fields := number_from 0 (mfields m)) in *. set (sorted := sort_by_num fields).
  assert (Hfield : forall p, In p fields -> field_rt s G idx m (ref_slot (ref_encode g s)) (norm_slot g s) (zero_slot (length s) s) fs p).
  { intros p Hp. apply (field_dispatch g G idx m fs Hgi Hm HG IH p Hp). apply Hslots, Hp. }
  assert (Hz1 : forall p q, In p fields -> In q fields -> In (fst q) (oneof_siblings m (snd p) (fst p)) -> unset (zero_slot (length s) s (snd q))).
  { intros p q Hp Hq Hs. apply oneof_member_zero; [apply Hsup, (number_from_In _ _ _ Hq)|].
    unfold oneof_siblings in Hs. destruct (foneof (snd p)) as [o|] eqn:Eo; [|destruct Hs]. apply in_map_iff in Hs. destruct Hs as [q' [E Hq']].
    apply filter_In in Hq'. destruct Hq' as [Hq'in Hc]. apply andb_true_iff in Hc. destruct Hc as [_ Hc].
    assert (q' = q).
    { pose proof (number_from_NoDup_fst (mfields m) 0) as Hndf. fold fields in Hndf, Hq'in.
      destruct (In_nth_error _ _ Hq) as [i Hi]. destruct (In_nth_error _ _ Hq'in) as [j Hj].
      assert (i = j) by (apply (proj1 (NoDup_nth_error _) Hndf); [rewrite map_length; apply nth_error_Some; congruence|rewrite !nth_error_map, Hi, Hj; cbn; congruence]).
      subst j. congruence. }
    subst q'. destruct (foneof (snd q)); [discriminate|discriminate Hc]. }
  assert (Hsibq : forall p q, In p fields -> In q fields -> In (fst q) (oneof_siblings m (snd p) (fst p)) -> foneof (snd p) <> None /\ foneof (snd q) <> None).
  { intros p q Hp Hq Hs. unfold oneof_siblings in Hs. destruct (foneof (snd p)) as [o|] eqn:Eo; [|destruct Hs]. split; [discriminate|].
    apply in_map_iff in Hs. destruct Hs as [q' [E Hq']]. apply filter_In in Hq'. destruct Hq' as [Hq'in Hc]. apply andb_true_iff in Hc. destruct Hc as [_ Hc].
    assert (q' = q).
    { pose proof (number_from_NoDup_fst (mfields m) 0) as Hndf. fold fields in Hndf, Hq'in.
      destruct (In_nth_error _ _ Hq) as [i Hi]. destruct (In_nth_error _ _ Hq'in) as [j Hj].
      assert (i = j) by (apply (proj1 (NoDup_nth_error _) Hndf); [rewrite map_length; apply nth_error_Some; congruence|rewrite !nth_error_map, Hi, Hj; cbn; congruence]).
      subst j. congruence. }
    subst q'. destruct (foneof (snd q)); [discriminate|discriminate Hc]. }
  assert (Hz2 : forall p q, In p fields -> In q fields -> In (fst q) (oneof_siblings m (snd p) (fst p)) ->
            ref_slot (ref_encode g s) (snd p) (nth (fst p) fs (VInt 0)) <> [] -> unset (norm_slot g s (snd q) (nth (fst q) fs (VInt 0)))).
  { intros p q Hp Hq Hs Hne. destruct (Hsibq p q Hp Hq Hs) as [Hop Hoq].
    assert (Hsetp : is_set (nth (fst p) fs (VInt 0)) = true).
    { destruct (is_set (nth (fst p) fs (VInt 0))) eqn:E; [reflexivity|]. exfalso.
      destruct (oneof_member_forms g (rt_ok g s) (snd p) _ (Hsup _ (number_from_In _ _ _ Hp)) Hop (Hslots p Hp) E) as [E0 _]. congruence. }
    unfold oneof_ok in Hone. rewrite forallb_forall in Hone. specialize (Hone p Hp). fold fields in Hone. rewrite Hsetp in Hone. cbn [negb orb] in Hone.
    rewrite forallb_forall in Hone. specialize (Hone (fst q) Hs). apply negb_true_iff in Hone.
    destruct (oneof_member_forms g (rt_ok g s) (snd q) _ (Hsup _ (number_from_In _ _ _ Hq)) Hoq (Hslots q Hq) Hone) as [_ [-> Hu]]. exact Hu. }
  pose proof Hnd0 as Hnd.
  destruct (fields_rt s G idx m Hm (ref_slot (ref_encode g s)) (norm_slot g s) (zero_slot (length s) s) fs Hfield Hz1 Hz2 sorted
              (sorted_nodup_fst m) ltac:(intros x Hx; apply (sort_by_num_In _ _ Hx)) (zero_fields s m) []) as [Hb [t' [Hd [Hl' Hall]]]].
  - unfold zero_fields. apply map_length.
  - intros p Hp. destruct p as [slot f]. apply nth_zero_fields. apply (sort_by_num_In _ _ Hp).
  - intros q Hq Hnq. exfalso. apply Hnq. apply (Permutation_in _ (Permutation_sym (sort_by_num_perm _)) Hq).
  - assert (Et : t' = norm_fields (S g) s idx fs).
    { rewrite (norm_fields_unfold g s idx fs m Hm). apply (list_ext_nth _ _ (VInt 0)).
      - rewrite Hl', map_length, combine_length. lia.
      - intros i Hi. rewrite Hl' in Hi. destruct (nth_error (mfields m) i) as [f|] eqn:Ef; [|apply nth_error_None in Ef; lia].
        pose proof (number_from_nth (mfields m) 0 i f Ef) as Hin. cbn [Nat.add] in Hin.
        pose proof (Hall (i, f) Hin) as Ha. cbn [fst snd] in Ha. rewrite Ha. symmetry.
        apply nth_error_nth. rewrite nth_error_map.
        assert (Ec : nth_error (combine fs (mfields m)) i = Some (nth i fs (VInt 0), f)).
        { clear -Hlen Ef. revert i fs Hlen Ef. induction (mfields m) as [|f0 l IHl]; intros i fs Hlen Ef; [destruct i; discriminate Ef|].
          destruct fs as [|v fs]; [discriminate Hlen|]. destruct i as [|i]; cbn in *; [injection Ef as <-; reflexivity|]. apply IHl; [lia|exact Ef]. }
        rewrite Ec. reflexivity. }
    subst t'. destruct (un_decode s G idx m un (norm_fields (S g) s idx fs) Hm Hun) as [Hbu Hdu].
    split; [apply bytes_ok_app; assumption|].
    rewrite (ref_decode_app (S G) s idx _ _ _ _ Hb Hd). exact Hdu.
Qed.
End Top.

(* ---------------------------------------------------------------- decidable side conditions on the schema *)
Fixpoint list_eqb {A} (eq : A -> A -> bool) (l1 l2 : list A) : bool :=
  match l1, l2 with
  | [], [] => true
  | x :: t1, y :: t2 => eq x y && list_eqb eq t1 t2
  | _, _ => false
  end.
Lemma list_eqb_sound {A} (eq : A -> A -> bool) : (forall x y, eq x y = true -> x = y) -> forall l1 l2, list_eqb eq l1 l2 = true -> l1 = l2.
Proof.
  intros He. induction l1 as [|x t1 IH]; intros [|y t2] H; try discriminate H; [reflexivity|].
  cbn in H. apply andb_true_iff in H. destruct H as [H1 H2]. f_equal; [apply He, H1|apply IH, H2].
Qed.

Fixpoint val_eqb (n : nat) (a b : val) : bool :=
  match n with
  | O => false
  | S n' =>
      match a, b with
      | VInt x, VInt y => x =? y
      | VBytes x, VBytes y => bytes_eqb x y
      | VOpt None, VOpt None => true
      | VOpt (Some x), VOpt (Some y) => val_eqb n' x y
      | VList x, VList y => list_eqb (val_eqb n') x y
      | VMsg None, VMsg None => true
      | VMsg (Some (f1, u1)), VMsg (Some (f2, u2)) => list_eqb (val_eqb n') f1 f2 && bytes_eqb u1 u2
      | VEmb f1 u1, VEmb f2 u2 => list_eqb (val_eqb n') f1 f2 && bytes_eqb u1 u2
      | VMap l1, VMap l2 => list_eqb (fun p q : val * val => val_eqb n' (fst p) (fst q) && val_eqb n' (snd p) (snd q)) l1 l2
      | VTime a1 b1, VTime a2 b2 => (a1 =? a2) && (b1 =? b2)
      | VDur x, VDur y => x =? y
      | _, _ => false
      end
  end.
Lemma val_eqb_sound : forall n a b, val_eqb n a b = true -> a = b.
Proof.
  induction n as [|n IH]; intros a b H; [discriminate H|]. cbn [val_eqb] in H.
  destruct a as [x|x|[x|]|x|[[f1 u1]|]|f1 u1|l1|a1 b1|x]; destruct b as [y|y|[y|]|y|[[f2 u2]|]|f2 u2|l2|a2 b2|y]; try discriminate H.
  - apply Z.eqb_eq in H. congruence.
  - apply bytes_eqb_eq in H. congruence.
  - f_equal. f_equal. apply IH, H.
  - reflexivity.
  - f_equal. apply (list_eqb_sound _ IH _ _ H).
  - apply andb_true_iff in H. destruct H as [H1 H2]. apply bytes_eqb_eq in H2. rewrite (list_eqb_sound _ IH _ _ H1), H2. reflexivity.
  - reflexivity.
  - apply andb_true_iff in H. destruct H as [H1 H2]. apply bytes_eqb_eq in H2. rewrite (list_eqb_sound _ IH _ _ H1), H2. reflexivity.
  - f_equal. apply (list_eqb_sound (fun p q : val * val => val_eqb n (fst p) (fst q) && val_eqb n (snd p) (snd q))); [|exact H].
    intros [p1 p2] [q1 q2] Hpq. cbn [fst snd] in Hpq. apply andb_true_iff in Hpq. destruct Hpq as [E1 E2]. f_equal; apply IH; assumption.
  - apply andb_true_iff in H. destruct H as [H1 H2]. apply Z.eqb_eq in H1. apply Z.eqb_eq in H2. congruence.
  - apply Z.eqb_eq in H. congruence.
Qed.

Definition zero_stable_b (s : schema) : bool :=
  forallb (fun m => forallb (fun f =>
     match f_custom f, fty f with
     | CNone, TMsg j =>
         if negb (i_repeated (field_info s f)) && negb (i_pointer (field_info s f)) && negb (i_oneof (field_info s f)) then
           match nth_error s j with
           | Some mj => val_eqb (S (S (length s))) (zero_slot (length s) s f) (VEmb (zero_fields s mj) [])
           | None => true
           end
         else true
     | _, _ => true
     end) (mfields m)) s.
Lemma zero_stable_b_spec s : zero_stable_b s = true -> zero_stable s.
Proof.
  unfold zero_stable_b, zero_stable. intros H m f j mj Hm Hf Hc Ht Hr Hp Hio Ej. rewrite forallb_forall in H. specialize (H m Hm).
  rewrite forallb_forall in H. specialize (H f Hf). rewrite Hc, Ht, Hr, Hp, Hio, Ej in H. cbn [negb andb] in H. apply (val_eqb_sound _ _ _ H).
Qed.

Definition msg_idx_ok_b (s : schema) : bool :=
  forallb (fun m => forallb (fun f => match fty f with TMsg j => match nth_error s j with Some _ => true | None => false end | _ => true end) (mfields m)) s.
Lemma msg_idx_ok_b_spec s : msg_idx_ok_b s = true -> msg_idx_ok s.
Proof.
  unfold msg_idx_ok_b, msg_idx_ok. intros H m f j Hm Hf Ht. rewrite forallb_forall in H. specialize (H m Hm).
  rewrite forallb_forall in H. specialize (H f Hf). rewrite Ht in H. destruct (nth_error s j) as [mj|]; [exists mj; reflexivity|discriminate H].
Qed.

(* the side conditions of the round-trip theorems: whole schema, or only the message types reachable from idx *)
Definition rt_applies (s : schema) : bool := tdec_applies s && zero_stable_b s && msg_idx_ok_b s.
Definition rt_applies_at (s : schema) (idx : nat) : bool := tdec_applies_at s idx && zero_stable_b s && msg_idx_ok_b s.

(* ---------------------------------------------------------------- C03 for generated code *)
Theorem ref_round_trip_at s g idx fs un m : rt_applies_at s idx = true -> nth_error s idx = Some m -> rt_ok g s idx fs un = true ->
  bytes_ok (ref_encode g s idx fs un) /\
  forall G, (length (ref_encode g s idx fs un) < G)%nat ->
    ref_decode G s idx (ref_encode g s idx fs un) (zero_fields s m, []) = Some (norm_fields g s idx fs, un).
Proof.
  intros Happ Hm Hok. unfold rt_applies_at in Happ. apply andb_true_iff in Happ. destruct Happ as [Happ Hi]. apply andb_true_iff in Happ. destruct Happ as [Happ Hz].
  destruct (tdec_applies_at_spec s idx Happ) as [Hg Hgi].
  destruct (ref_round_trip_all s _ Hg (zero_stable_b_spec s Hz) (msg_idx_ok_b_spec s Hi) g idx fs un m g Hgi Hm Hok (le_n g)) as [Hb Hd]. split; [exact Hb|].
  intros G HG. apply (ref_decode_enough s _ (S g) G idx _ _ Hb Hd HG).
Qed.

Theorem ref_round_trip s g idx fs un m : rt_applies s = true -> nth_error s idx = Some m -> rt_ok g s idx fs un = true ->
  bytes_ok (ref_encode g s idx fs un) /\
  forall G, (length (ref_encode g s idx fs un) < G)%nat ->
    ref_decode G s idx (ref_encode g s idx fs un) (zero_fields s m, []) = Some (norm_fields g s idx fs, un).
Proof.
  intros Happ Hm Hok. unfold rt_applies in Happ. apply andb_true_iff in Happ. destruct Happ as [Happ Hi]. apply andb_true_iff in Happ. destruct Happ as [Happ Hz].
  destruct (tdec_applies_spec s Happ) as [Hwf Hsup].
  assert (Hg : good_set s (fun _ => true)).
  { intros j mj _ Hmj. pose proof (nth_error_In _ _ Hmj) as Hin. split; [apply Hwf, Hin|]. split; [intros f Hf; apply (Hsup mj Hin f Hf)|reflexivity]. }
  destruct (ref_round_trip_all s _ Hg (zero_stable_b_spec s Hz) (msg_idx_ok_b_spec s Hi) g idx fs un m g eq_refl Hm Hok (le_n g)) as [Hb Hd]. split; [exact Hb|].
  intros G HG. apply (ref_decode_enough s _ (S g) G idx _ _ Hb Hd HG).
Qed.

(* Unmarshal(Marshal(m)) into a fresh message reproduces m (up to the by-design normal form of Norm.v) *)
Theorem marshal_unmarshal_at s progs fuel idx fs un m :
  gen_all s = GOk progs -> wf_schema_enc s = true -> rt_applies_at s idx = true -> nth_error s idx = Some m ->
  msg_ok fuel progs idx (Some (fs, un)) = true -> rt_ok fuel s idx fs un = true ->
  exists data, pico_marshal fuel progs idx (fs, un) = Ok data /\
               pico_unmarshal progs idx data (zero_fields s m, []) = (None, (norm_fields fuel s idx fs, un)).
Proof.
  intros Hgen Hwe Happ Hm Hmok Hrt. exists (ref_encode fuel s idx fs un). split; [apply T_enc; assumption|].
  destruct (ref_round_trip_at s fuel idx fs un m Happ Hm Hrt) as [Hb Hd].
  assert (Ha : tdec_applies_at s idx = true) by (unfold rt_applies_at in Happ; apply andb_true_iff in Happ; destruct Happ as [H _]; apply andb_true_iff in H; tauto).
  pose proof (T_dec_at s progs idx (ref_encode fuel s idx fs un) (zero_fields s m, []) Hgen Ha Hb) as Ht. cbv zeta in Ht.
  rewrite (Hd (S (S (S (length (ref_encode fuel s idx fs un))))) ltac:(lia)) in Ht. destruct Ht as [E1 E2].
  destruct (pico_unmarshal progs idx (ref_encode fuel s idx fs un) (zero_fields s m, [])) as [e r]. cbn [fst snd] in *. subst. reflexivity.
Qed.

Theorem marshal_unmarshal s progs fuel idx fs un m :
  gen_all s = GOk progs -> wf_schema_enc s = true -> rt_applies s = true -> nth_error s idx = Some m ->
  msg_ok fuel progs idx (Some (fs, un)) = true -> rt_ok fuel s idx fs un = true ->
  exists data, pico_marshal fuel progs idx (fs, un) = Ok data /\
               pico_unmarshal progs idx data (zero_fields s m, []) = (None, (norm_fields fuel s idx fs, un)).
Proof.
  intros Hgen Hwe Happ Hm Hmok Hrt. exists (ref_encode fuel s idx fs un). split; [apply T_enc; assumption|].
  destruct (ref_round_trip s fuel idx fs un m Happ Hm Hrt) as [Hb Hd].
  assert (Ha : tdec_applies s = true) by (unfold rt_applies in Happ; apply andb_true_iff in Happ; destruct Happ as [H _]; apply andb_true_iff in H; tauto).
  pose proof (T_dec_b s progs idx (ref_encode fuel s idx fs un) (zero_fields s m, []) Hgen Ha Hb) as Ht. cbv zeta in Ht.
  rewrite (Hd (S (S (S (length (ref_encode fuel s idx fs un))))) ltac:(lia)) in Ht. destruct Ht as [E1 E2].
  destruct (pico_unmarshal progs idx (ref_encode fuel s idx fs un) (zero_fields s m, [])) as [e r]. cbn [fst snd] in *. subst. reflexivity.
Qed.
