(* The reference decoder reads the reference encoding back: ref_decode (ref_encode v) = norm v.
   With T_enc and T_dec this is C03 (and the decoding half of C01, C08, C11) for Unmarshal(Marshal(m)). *)
From Coq Require Import List ZArith Lia Bool Arith.
From Pico Require Import Base.Res Base.ListX Base.Mach Wire.Wire Schema.Types Schema.Scalar Schema.Gen Schema.Conv Schema.Interp Schema.Norm Ref.Ref
  Wire.VarintProofs Wire.WireProofs Wire.FixedProofs Schema.ScalarProofs Dec.Dec Dec.SafetyProofs Dec.TokenBridge Dec.TokenApp Dec.StreamLoop Dec.ReaderBridge
  Schema.EncSpec Dec.ReaderProofs Dec.LoopInst Schema.TDec Schema.Concat.
Import ListNotations.
Open Scope Z_scope.

(* ---------------------------------------------------------------- bytes written are bytes *)
Lemma spec_varint_bytes_ok v : 0 <= v -> bytes_ok (spec_varint v).
Proof. intros H. apply varint7_bytes_ok. exact H. Qed.
Lemma le_bytes_bytes_ok n v : bytes_ok (le_bytes n v).
Proof. apply le_bytes_ok. Qed.

Lemma scalar_ok_bytes k b : scalar_ok k (VBytes b) = true -> bytes_ok b.
Proof.
  intros H. destruct k; try discriminate H; cbn in H; apply andb_true_iff in H; destruct H as [H _];
    rewrite forallb_forall in H; apply Forall_forall; intros y Hy; specialize (H y Hy); unfold byte_ok in H;
    apply andb_true_iff in H; destruct H as [H1 H2]; apply Z.leb_le in H1; apply Z.ltb_lt in H2; lia.
Qed.

Lemma spec_payload_bytes_ok k v : scalar_ok k v = true -> bytes_ok (spec_payload k v).
Proof.
  intros H. rewrite <- (enc_payload_spec k v H).
  destruct v as [z|b| | | | | | |]; try (destruct k; discriminate H).
  - pose proof (enc_tr_range k z H) as R. unfold enc_payload. cbn [as_int].
    destruct k; try discriminate H; cbn [wire_of] in *; unfold VarintType, Fixed32Type, Fixed64Type in *;
      first [rewrite append_varint_spec by exact R; apply spec_varint_bytes_ok; destruct R; assumption
            |rewrite append_fixed32_spec; apply le_bytes_bytes_ok
            |rewrite append_fixed64_spec; apply le_bytes_bytes_ok].
  - assert (Hb : is_bytes_kind k = true) by (destruct k; try discriminate H; reflexivity).
    pose proof (bytes_len_ok k b Hb H) as L. unfold enc_payload. cbn [as_bytes].
    assert (E : append_bytes b = spec_varint (Z.of_nat (length b)) ++ b) by (unfold append_bytes; rewrite append_varint_spec by exact L; reflexivity).
    destruct k; try discriminate Hb; cbn [wire_of]; unfold BytesType; rewrite E;
      (apply bytes_ok_app; [apply spec_varint_bytes_ok; lia|apply (scalar_ok_bytes _ _ H)]).
Qed.

Lemma spec_tag_bytes_ok num wt : 0 <= num -> 0 <= wt -> bytes_ok (spec_tag num wt).
Proof. intros. apply spec_varint_bytes_ok. lia. Qed.

(* ---------------------------------------------------------------- one written field is one token *)
Lemma tag_parse num wt rest : valid_number num = true -> 0 <= wt < 8 ->
  spec_parse_varint (spec_tag num wt ++ rest) = Some (num * 8 + wt, length (spec_tag num wt)) /\
  (num * 8 + wt) / 8 = num /\ (num * 8 + wt) mod 8 = wt.
Proof.
  intros Hv Hw. unfold valid_number, MaxValidNumber in Hv. apply andb_true_iff in Hv. destruct Hv as [H1 H2].
  apply Z.leb_le in H1. apply Z.leb_le in H2. change (2 ^ 29 - 1) with 536870911 in H2.
  split; [|split].
  - unfold spec_tag. apply spec_parse_spec_varint. unfold u64_ok. change (2 ^ 64) with 18446744073709551616. lia.
  - symmetry. apply Z.div_unique with wt; lia.
  - symmetry. apply Z.mod_unique with num; lia.
Qed.

Lemma valid_num_of_number num : valid_number num = true -> valid_num num = true.
Proof. intros H. exact H. Qed.

(* a scalar field written by the reference encoder parses as one token carrying the value *)
Lemma field_token k num v rest : valid_number num = true -> scalar_ok k v = true -> bytes_ok rest ->
  exists p n, parse_token (spec_field k num v ++ rest) = Some ({| t_num := num; t_wt := wire_of k; t_pay := p; t_raw := spec_payload k v |}, n) /\
              n = length (spec_field k num v) /\
              tok_scalar k {| t_num := num; t_wt := wire_of k; t_pay := p; t_raw := spec_payload k v |} = Some v.
Proof.
  intros Hv Hok Hr. unfold spec_field. rewrite <- app_assoc.
  destruct (tag_parse num (wire_of k) (spec_payload k v ++ rest) Hv (wire_of_range k)) as [Etag [Ediv Emod]].
  unfold parse_token. rewrite Etag, Ediv, Emod. rewrite (valid_num_of_number num Hv). cbn [negb].
  rewrite (skipn_app_l (spec_tag num (wire_of k)) (spec_payload k v ++ rest) _ eq_refl).
  pose proof (dec_payload_parse k num (spec_payload k v ++ rest) (bytes_ok_app _ _ (spec_payload_bytes_ok k v Hok) Hr)) as Hd.
  pose proof (dec_enc_payload k v rest Hok) as Hde. rewrite (enc_payload_spec k v Hok) in Hde.
  destruct (parse_value num (wire_of k) (spec_payload k v ++ rest)) as [[p kk]|].
  - destruct Hd as [x [Ht Ed]]. rewrite Hde in Ed. injection Ed as <- Ek. apply Nat2Z.inj in Ek. subst kk.
    rewrite (firstn_app_l (spec_payload k v) rest _ eq_refl) in *.
    exists p, (length (spec_tag num (wire_of k)) + length (spec_payload k v))%nat. split; [reflexivity|]. split; [rewrite app_length; reflexivity|exact Ht].
  - rewrite Hde in Hd. cbn [snd] in Hd. lia.
Qed.

(* a length-delimited record written by the reference encoder parses as one token carrying the payload *)
Lemma ld_token num payload rest : valid_number num = true -> bytes_ok payload -> lenb payload = true -> bytes_ok rest ->
  parse_token (spec_ld num payload ++ rest) =
  Some ({| t_num := num; t_wt := 2; t_pay := PBytes payload; t_raw := spec_varint (Z.of_nat (length payload)) ++ payload |}, length (spec_ld num payload)).
Proof.
  intros Hv Hp Hl Hr. unfold spec_ld. rewrite <- !app_assoc.
  destruct (tag_parse num 2 (spec_varint (Z.of_nat (length payload)) ++ payload ++ rest) Hv ltac:(lia)) as [Etag [Ediv Emod]].
  unfold parse_token. rewrite Etag, Ediv, Emod. rewrite (valid_num_of_number num Hv). cbn [negb].
  rewrite (skipn_app_l (spec_tag num 2) _ _ eq_refl). cbn [parse_value].
  assert (Hu : u64_ok (Z.of_nat (length payload))).
  { unfold lenb in Hl. apply Z.ltb_lt in Hl. unfold u64_ok. change (2 ^ 64) with 18446744073709551616. change (2 ^ 63) with 9223372036854775808 in Hl. lia. }
  rewrite (spec_parse_spec_varint _ (payload ++ rest) Hu).
  rewrite (skipn_app_l (spec_varint (Z.of_nat (length payload))) (payload ++ rest) _ eq_refl).
  rewrite has_len_z_spec, app_length. replace (Z.of_nat (length payload) <=? Z.of_nat (length payload + length rest)) with true by (symmetry; apply Z.leb_le; lia).
  cbn [negb]. rewrite Nat2Z.id. rewrite (firstn_app_l payload rest _ eq_refl).
  f_equal. f_equal.
  - f_equal. rewrite app_assoc. rewrite (firstn_app_l (spec_varint (Z.of_nat (length payload)) ++ payload) rest); [reflexivity|rewrite app_length; reflexivity].
  - rewrite !app_length. lia.
Qed.

(* ---------------------------------------------------------------- the per-slot normal form *)
Definition norm_slot (g : nat) (s : schema) (f : fdesc) (v : val) : val :=
  match f_custom f, fty f, v with
  | (CTimestamp | CDuration), _, VOpt (Some x) => if is_zero_time x then VOpt None else v
  | (CTimestamp | CDuration), _, VList l =>
      VList (filter (fun e => match e with
                              | VOpt None => false
                              | VOpt (Some x) => negb (is_zero_time x)
                              | x => negb (is_zero_time x)
                              end) l)
  | CNone, TMsg j, VMsg (Some (fs1, u)) => VMsg (Some (norm_fields g s j fs1, u))
  | CNone, TMsg j, VEmb fs1 u => VEmb (norm_fields g s j fs1) u
  | CNone, TMsg j, VList l =>
      VList (map (fun e => match e with
                           | VMsg None => VMsg (Some (match nth_error s j with Some mj => zero_fields s mj | None => [] end, []))
                           | VMsg (Some (fs1, u)) => VMsg (Some (norm_fields g s j fs1, u))
                           | VEmb fs1 u => VEmb (norm_fields g s j fs1) u
                           | x => x
                           end) l)
  | _, _, _ => v
  end.

Lemma norm_fields_unfold g s idx fs m : nth_error s idx = Some m ->
  norm_fields (S g) s idx fs = map (fun p : val * fdesc => norm_slot g s (snd p) (fst p)) (combine fs (mfields m)).
Proof. intros E. cbn [norm_fields]. rewrite E. apply map_ext. intros [v f]. reflexivity. Qed.

(* ---------------------------------------------------------------- a message, field by field *)
Section MsgRT.
Variables (s : schema) (G : nat) (idx : nat) (m : mdesc).
Hypothesis Hm : nth_error s idx = Some m.
Hypothesis Hnd : NoDup (map fnum (mfields m)).

Definition unset (v : val) : Prop := v = VOpt None \/ v = VMsg None.

(* what decoding the bytes of one field must do, from a target whose slot is still blank *)
Definition field_rt (enc : fdesc -> val -> bytes) (nv : fdesc -> val -> val) (zero : fdesc -> val) (fs : list val) (p : nat * fdesc) : Prop :=
  forall t u, nth (fst p) t (VInt 0) = zero (snd p) ->
    (enc (snd p) (nth (fst p) fs (VInt 0)) <> [] ->
     forall q, In q (number_from 0 (mfields m)) -> In (fst q) (oneof_siblings m (snd p) (fst p)) -> unset (nth (fst q) t (VInt 0))) ->
    bytes_ok (enc (snd p) (nth (fst p) fs (VInt 0))) /\
    ref_decode (S G) s idx (enc (snd p) (nth (fst p) fs (VInt 0))) (t, u) = Some (set_nth t (fst p) (nv (snd p) (nth (fst p) fs (VInt 0))), u).

Lemma flat_map_bytes_ok {A} (g : A -> bytes) l : (forall x, In x l -> bytes_ok (g x)) -> bytes_ok (flat_map g l).
Proof. induction l as [|x l IH]; intros H; [constructor|]. cbn. apply bytes_ok_app; [apply H; left; reflexivity|apply IH; intros y Hy; apply H; right; exact Hy]. Qed.

Lemma number_from_slot_lt {A} (l : list A) : forall n p, In p (number_from n l) -> (fst p < n + length l)%nat.
Proof. induction l as [|x l IH]; intros n p H; cbn in H; [contradiction|]. destruct H as [<-|H]; [cbn; lia|]. specialize (IH _ _ H). cbn [length]. lia. Qed.

Lemma set_nth_length {A} (l : list A) i x : length (set_nth l i x) = length l.
Proof. revert i; induction l as [|a l IH]; intros [|i]; cbn; auto. Qed.

Lemma ref_decode_nil g x : ref_decode (S g) s idx [] x = Some x.
Proof. rewrite ref_decode_unfold, Hm, tokens_nil. reflexivity. Qed.

Section Assemble.
Variables (enc : fdesc -> val -> bytes) (nv : fdesc -> val -> val) (zero : fdesc -> val) (fs : list val).
Let fields := number_from 0 (mfields m).
Hypothesis Hfield : forall p, In p fields -> field_rt enc nv zero fs p.
Hypothesis Hzero_oneof : forall p q, In p fields -> In q fields -> In (fst q) (oneof_siblings m (snd p) (fst p)) -> unset (zero (snd q)).
Hypothesis Hone : forall p q, In p fields -> In q fields -> In (fst q) (oneof_siblings m (snd p) (fst p)) ->
  enc (snd p) (nth (fst p) fs (VInt 0)) <> [] -> unset (nv (snd q) (nth (fst q) fs (VInt 0))).

Lemma fields_rt : forall l, NoDup (map fst l) -> incl l fields -> forall t u,
  length t = length (mfields m) ->
  (forall p, In p l -> nth (fst p) t (VInt 0) = zero (snd p)) ->
  (forall q, In q fields -> ~ In q l -> nth (fst q) t (VInt 0) = nv (snd q) (nth (fst q) fs (VInt 0))) ->
  bytes_ok (flat_map (fun p => enc (snd p) (nth (fst p) fs (VInt 0))) l) /\
  exists t', ref_decode (S G) s idx (flat_map (fun p => enc (snd p) (nth (fst p) fs (VInt 0))) l) (t, u) = Some (t', u) /\
             length t' = length (mfields m) /\
             (forall q, In q fields -> nth (fst q) t' (VInt 0) = nv (snd q) (nth (fst q) fs (VInt 0))).
Proof.
  induction l as [|p l IH]; intros Hndl Hincl t u Hlen Hz Hdone.
  - split; [constructor|]. exists t. cbn [flat_map]. rewrite ref_decode_nil. split; [reflexivity|]. split; [exact Hlen|].
    intros q Hq. apply Hdone; [exact Hq|intros []].
  - cbn [flat_map map] in *. inversion Hndl as [|? ? Hnp Hndl']; subst.
    assert (Hp : In p fields) by (apply Hincl; left; reflexivity).
    assert (Hsib : enc (snd p) (nth (fst p) fs (VInt 0)) <> [] ->
              forall q, In q fields -> In (fst q) (oneof_siblings m (snd p) (fst p)) -> unset (nth (fst q) t (VInt 0))).
    { intros Hne q Hq Hs. destruct (in_dec (fun a b : nat * fdesc => ltac:(decide equality; [decide equality; try apply Z.eq_dec; try decide equality; try decide equality; try decide equality|decide equality])) q (p :: l)) as [Hin|Hnin].
      - rewrite (Hz q Hin). apply (Hzero_oneof p q Hp Hq Hs).
      - rewrite (Hdone q Hq Hnin). apply (Hone p q Hp Hq Hs Hne). }
    destruct (Hfield p Hp t u (Hz p (or_introl eq_refl)) Hsib) as [Hb1 Hd1].
    set (t1 := set_nth t (fst p) (nv (snd p) (nth (fst p) fs (VInt 0)))) in *.
    assert (Hslot : (fst p < length t)%nat) by (rewrite Hlen; apply (number_from_slot_lt (mfields m) 0 p Hp)).
    destruct (IH Hndl' (fun x Hx => Hincl x (or_intror Hx)) t1 u) as [Hb2 [t' [Hd2 [Hl2 Hall]]]].
    + unfold t1. rewrite set_nth_length. exact Hlen.
    + intros q Hq. unfold t1. rewrite nth_set_nth_other; [apply Hz; right; exact Hq|].
      intros E. apply Hnp. rewrite <- E. apply in_map. exact Hq.
    + intros q Hq Hnq. destruct (Nat.eq_dec (fst q) (fst p)) as [E|E].
      * assert (q = p).
        { pose proof (number_from_NoDup_fst (mfields m) 0) as Hndf. fold fields in Hndf.
          destruct (In_nth_error _ _ Hq) as [i Hi]. destruct (In_nth_error _ _ Hp) as [j Hj].
          assert (i = j).
          { apply (proj1 (NoDup_nth_error _) Hndf); [rewrite map_length; apply nth_error_Some; congruence|].
            rewrite !nth_error_map, Hi, Hj. cbn. congruence. }
          subst j. congruence. }
        subst q. unfold t1. apply nth_set_nth_in. exact Hslot.
      * unfold t1. rewrite nth_set_nth_other by exact E. apply Hdone; [exact Hq|]. intros [Hc|Hc]; [subst q; congruence|contradiction].
    + split; [apply bytes_ok_app; assumption|]. exists t'.
      rewrite (ref_decode_app (S G) s idx _ _ (t, u) (t1, u) Hb1 Hd1). auto.
Qed.
End Assemble.
End MsgRT.

(* ---------------------------------------------------------------- helpers *)
Lemma tokens_single b tok : b <> [] -> parse_token b = Some (tok, length b) -> tokens b = Some [tok].
Proof.
  intros Hne E. rewrite tokens_cons by exact Hne. rewrite E. destruct (length b) eqn:El; [destruct b; [congruence|discriminate El]|].
  rewrite <- El. rewrite skipn_all. rewrite tokens_nil. reflexivity.
Qed.

Lemma clear_unset m f slot t :
  (forall sib, In sib (oneof_siblings m f slot) -> unset (nth sib t (VInt 0))) -> clear_siblings m f slot t = t.
Proof.
  unfold clear_siblings. generalize (oneof_siblings m f slot) as l. induction l as [|sib l IH]; intros H; [reflexivity|].
  cbn [fold_left].
  assert (E : set_nth t sib (match nth sib t (VInt 0) with VMsg _ => VMsg None | _ => VOpt None end) = t).
  { destruct (H sib (or_introl eq_refl)) as [E|E]; rewrite E; rewrite <- E; apply set_nth_same. }
  rewrite E. apply IH. intros x Hx. apply H. right. exact Hx.
Qed.

Lemma siblings_are_fields m f slot sib : In sib (oneof_siblings m f slot) -> exists q, In q (number_from 0 (mfields m)) /\ fst q = sib.
Proof.
  unfold oneof_siblings. destruct (foneof f); [|intros []]. intros H. apply in_map_iff in H. destruct H as [q [E Hq]].
  apply filter_In in Hq. exists q. tauto.
Qed.

Lemma spec_field_nonempty k num v : spec_field k num v <> [].
Proof. unfold spec_field, spec_tag. pose proof (spec_varint_nonempty (num * 8 + wire_of k)). destruct (spec_varint (num * 8 + wire_of k)); [congruence|discriminate]. Qed.

Lemma default_is_zero k v : scalar_ok k v = true -> spec_default k v = true -> v = zero_scalar k.
Proof.
  intros Hok Hd. destruct v as [z|b| | | | | | |]; try (destruct k; discriminate Hok).
  - destruct k; try discriminate Hok; cbn in Hd; apply Z.eqb_eq in Hd; subst; reflexivity.
  - destruct k; try discriminate Hok; cbn in Hd; destruct b; try discriminate Hd; reflexivity.
Qed.

(* ---------------------------------------------------------------- scalar and enum fields *)
Section ScalarRT.
Variables (s : schema) (G : nat) (idx : nat) (m : mdesc).
Hypothesis Hm : nth_error s idx = Some m.
Hypothesis Hnd : NoDup (map fnum (mfields m)).
Variable rr : nat -> list val -> bytes -> bytes.    (* encoder of sub-messages (unused here) *)

(* the Go shape and range of a scalar / enum slot *)
Definition scalar_slot_ok (f : fdesc) (k : kind) (v : val) : bool :=
  let i := field_info s f in
  if i_repeated i then
    match v with VList l => forallb (scalar_ok k) l && lenb (flat_map (spec_payload k) l) | _ => false end
  else if i_oneof i || i_pointer i then
    match v with VOpt None => true | VOpt (Some x) => scalar_ok k x | _ => false end
  else scalar_ok k v.

Lemma decode_one_token slot f tok b t u r : In (slot, f) (number_from 0 (mfields m)) ->
  tokens b = Some [tok] -> t_num tok = fnum f -> apply_known s (ref_decode G s) m slot f tok t = Some r ->
  ref_decode (S G) s idx b (t, u) = Some (r, u).
Proof.
  intros Hin Ht En Ha. rewrite ref_decode_unfold, Hm, Ht. cbn. unfold apply_token. rewrite En.
  rewrite (find_field_known m Hnd slot f Hin). cbn [fst snd]. rewrite Ha. reflexivity.
Qed.

Lemma scalar_single_rt k slot f fs : In (slot, f) (number_from 0 (mfields m)) ->
  f_custom f = CNone -> (fty f = TScalar k \/ (fty f = TEnum /\ k = KInt32)) -> i_repeated (field_info s f) = false ->
  valid_number (fnum f) = true -> scalar_slot_ok f k (nth slot fs (VInt 0)) = true ->
  field_rt s G idx m (ref_slot rr) (fun f0 v => v)
    (fun f0 => if i_oneof (field_info s f0) || i_pointer (field_info s f0) then VOpt None else zero_scalar k) fs (slot, f).
Proof.
  intros Hin Hc Ht Hr Hv Hok t u Hz Hsib. cbn [fst snd] in *.
  unfold scalar_slot_ok in Hok. rewrite Hr in Hok.
  assert (Henc : ref_slot rr f (nth slot fs (VInt 0)) = ref_scalar_slot k (fnum f) (nth slot fs (VInt 0))).
  { unfold ref_slot. rewrite Hc. destruct Ht as [Ht|[Ht ->]]; rewrite Ht; reflexivity. }
  rewrite Henc in *.
  assert (Hk : forall tok t0, t_num tok = fnum f ->
             apply_known s (ref_decode G s) m slot f tok t0 =
             match tok_scalar k tok with
             | Some x => Some (set_nth (clear_siblings m f slot t0) slot (if i_oneof (field_info s f) || i_pointer (field_info s f) then VOpt (Some x) else x))
             | None => None end).
  { intros tok t0 _. unfold apply_known. rewrite Hc, Hr. destruct Ht as [Ht|[Ht ->]]; rewrite Ht; cbn [kind_of_ftype]; destruct (tok_scalar _ tok); reflexivity. }
  assert (Hone : forall x, scalar_ok k x = true ->
            (forall q, In q (number_from 0 (mfields m)) -> In (fst q) (oneof_siblings m f slot) -> unset (nth (fst q) t (VInt 0))) ->
            bytes_ok (spec_field k (fnum f) x) /\
            ref_decode (S G) s idx (spec_field k (fnum f) x) (t, u) =
            Some (set_nth t slot (if i_oneof (field_info s f) || i_pointer (field_info s f) then VOpt (Some x) else x), u)).
  { intros x Hx Hs.
    destruct (field_token k (fnum f) x [] Hv Hx ltac:(constructor)) as [p [n [Ep [En Et]]]]. rewrite app_nil_r in Ep.
    split; [unfold spec_field; apply bytes_ok_app; [apply spec_tag_bytes_ok; [unfold valid_number in Hv; apply andb_true_iff in Hv; destruct Hv as [H1 _]; apply Z.leb_le in H1; lia|pose proof (wire_of_range k); lia]|apply spec_payload_bytes_ok, Hx]|].
    subst n. apply (decode_one_token slot f _ _ t u _ Hin (tokens_single _ _ (spec_field_nonempty k (fnum f) x) Ep) eq_refl).
    rewrite Hk by reflexivity. rewrite Et. rewrite clear_unset; [reflexivity|].
    intros sib Hsb. destruct (siblings_are_fields m f slot sib Hsb) as [q [Hq <-]]. apply Hs; assumption. }
  destruct (i_oneof (field_info s f) || i_pointer (field_info s f)) eqn:Ebox.
  - destruct (nth slot fs (VInt 0)) as [| |[x|]| | | | | |] eqn:Ev; try discriminate Hok; cbn [ref_scalar_slot] in *.
    + apply Hone; [exact Hok|]. apply Hsib. apply spec_field_nonempty.
    + split; [constructor|]. rewrite (ref_decode_nil s idx m Hm). rewrite <- Hz. rewrite set_nth_same. reflexivity.
  - assert (Hplain : ref_scalar_slot k (fnum f) (nth slot fs (VInt 0)) =
                     if spec_default k (nth slot fs (VInt 0)) then [] else spec_field k (fnum f) (nth slot fs (VInt 0))).
    { destruct (nth slot fs (VInt 0)); try reflexivity; destruct k; discriminate Hok. }
    rewrite Hplain in *. destruct (spec_default k (nth slot fs (VInt 0))) eqn:Ed.
    + split; [constructor|]. rewrite (ref_decode_nil s idx m Hm). rewrite (default_is_zero k _ Hok Ed), <- Hz, set_nth_same. reflexivity.
    + apply Hone; [exact Hok|]. apply Hsib. apply spec_field_nonempty.
Qed.
End ScalarRT.

Lemma payload_value k num v rest : scalar_ok k v = true -> bytes_ok rest ->
  exists p, parse_value num (wire_of k) (spec_payload k v ++ rest) = Some (p, length (spec_payload k v)) /\
            tok_scalar k {| t_num := num; t_wt := wire_of k; t_pay := p; t_raw := firstn (length (spec_payload k v)) (spec_payload k v ++ rest) |} = Some v.
Proof.
  intros Hok Hr.
  pose proof (dec_payload_parse k num (spec_payload k v ++ rest) (bytes_ok_app _ _ (spec_payload_bytes_ok k v Hok) Hr)) as Hd.
  pose proof (dec_enc_payload k v rest Hok) as Hde. rewrite (enc_payload_spec k v Hok) in Hde.
  destruct (parse_value num (wire_of k) (spec_payload k v ++ rest)) as [[p kk]|].
  - destruct Hd as [x [Ht Ed]]. rewrite Hde in Ed. injection Ed as <- Ek. apply Nat2Z.inj in Ek. subst kk. exists p. split; [reflexivity|exact Ht].
  - rewrite Hde in Hd. cbn [snd] in Hd. lia.
Qed.

Lemma spec_payload_nonempty k v : is_scalar_wire k = true -> spec_payload k v <> [].
Proof.
  intros Hs. destruct k; try discriminate Hs; cbn [spec_payload]; try discriminate;
    try (apply spec_varint_nonempty).
Qed.

Lemma unpack_payloads k : is_scalar_wire k = true -> forall l, forallb (scalar_ok k) l = true ->
  forall fuel, (length (flat_map (spec_payload k) l) < fuel)%nat -> unpack fuel k (flat_map (spec_payload k) l) = Some l.
Proof.
  intros Hs. induction l as [|x l IH]; intros Hok fuel Hf.
  - destruct fuel; [lia|reflexivity].
  - cbn [flat_map forallb] in *. apply andb_true_iff in Hok. destruct Hok as [Hx Hl].
    destruct fuel as [|fuel]; [lia|].
    assert (Hbl : bytes_ok (flat_map (spec_payload k) l)).
    { apply flat_map_bytes_ok. intros y Hy. apply spec_payload_bytes_ok. rewrite forallb_forall in Hl. apply Hl, Hy. }
    rewrite unpack_step; [|exact Hs|].
    2:{ pose proof (spec_payload_nonempty k x Hs). destruct (spec_payload k x); [congruence|discriminate]. }
    destruct (payload_value k 0 x (flat_map (spec_payload k) l) Hx Hbl) as [p [Ep Et]]. rewrite Ep, Et.
    rewrite (skipn_app_l (spec_payload k x) _ _ eq_refl). rewrite IH; [reflexivity|exact Hl|]. rewrite app_length in Hf.
    pose proof (spec_payload_nonempty k x Hs). destruct (spec_payload k x); [congruence|cbn [length] in Hf; lia].
Qed.

Section ScalarRepRT.
Variables (s : schema) (G : nat) (idx : nat) (m : mdesc).
Hypothesis Hm : nth_error s idx = Some m.
Hypothesis Hnd : NoDup (map fnum (mfields m)).
Variable rr : nat -> list val -> bytes -> bytes.

Lemma tok_scalar_bytes_none k tok b : is_bytes_kind k = false -> t_pay tok = PBytes b -> tok_scalar k tok = None.
Proof. intros Hk Hp. unfold tok_scalar. rewrite Hp. destruct k; try discriminate Hk; reflexivity. Qed.

Lemma scalar_rep_rt k slot f fs : In (slot, f) (number_from 0 (mfields m)) ->
  f_custom f = CNone -> (fty f = TScalar k \/ (fty f = TEnum /\ k = KInt32)) -> i_repeated (field_info s f) = true -> foneof f = None ->
  valid_number (fnum f) = true -> scalar_slot_ok s f k (nth slot fs (VInt 0)) = true ->
  field_rt s G idx m (ref_slot rr) (fun f0 v => v) (fun f0 => VList []) fs (slot, f).
Proof.
  intros Hin Hc Ht Hr Hno Hv Hok t u Hz _. cbn [fst snd] in *.
  unfold scalar_slot_ok in Hok. rewrite Hr in Hok.
  destruct (nth slot fs (VInt 0)) as [| | |l| | | | |] eqn:Ev; try discriminate Hok.
  apply andb_true_iff in Hok. destruct Hok as [Hall Hlen].
  assert (Henc : ref_slot rr f (VList l) = ref_scalar_slot k (fnum f) (VList l)).
  { unfold ref_slot. rewrite Hc. destruct Ht as [Ht|[Ht ->]]; rewrite Ht; reflexivity. }
  rewrite Henc. cbn [ref_scalar_slot].
  assert (Hvn : 0 <= fnum f) by (unfold valid_number in Hv; apply andb_true_iff in Hv; destruct Hv as [H1 _]; apply Z.leb_le in H1; lia).
  assert (Hk : forall tok t0, apply_known s (ref_decode G s) m slot f tok t0 =
             match tok_scalar k tok with
             | Some x => Some (set_nth t0 slot (VList (as_list (nth slot t0 (VInt 0)) ++ [x])))
             | None => match t_pay tok with
                       | PBytes b => if is_bytes_kind k then None else
                                     match unpack (S (length b)) k b with Some xs => Some (set_nth t0 slot (VList (as_list (nth slot t0 (VInt 0)) ++ xs))) | None => None end
                       | _ => None end
             end).
  { intros tok t0. unfold apply_known. rewrite Hc, Hr, (clear_siblings_none m f slot t0 Hno).
    destruct Ht as [Ht|[Ht ->]]; rewrite Ht; cbn [kind_of_ftype]; reflexivity. }
  destruct (is_bytes_kind k) eqn:Eb.
  - (* one record per element *)
    assert (Gl : forall l0 acc t0, forallb (scalar_ok k) l0 = true -> nth slot t0 (VInt 0) = VList acc -> (slot < length t0)%nat ->
              bytes_ok (flat_map (spec_field k (fnum f)) l0) /\
              ref_decode (S G) s idx (flat_map (spec_field k (fnum f)) l0) (t0, u) = Some (set_nth t0 slot (VList (acc ++ l0)), u)).
    { induction l0 as [|x l0 IH]; intros acc t0 Hal Hn Hsl.
      - split; [constructor|]. cbn [flat_map]. rewrite (ref_decode_nil s idx m Hm), app_nil_r, <- Hn, set_nth_same. reflexivity.
      - cbn [flat_map forallb] in *. apply andb_true_iff in Hal. destruct Hal as [Hx Hal].
        destruct (field_token k (fnum f) x [] Hv Hx ltac:(constructor)) as [p [n [Ep [En Et]]]]. rewrite app_nil_r in Ep. subst n.
        assert (Hb1 : bytes_ok (spec_field k (fnum f) x)).
        { unfold spec_field. apply bytes_ok_app; [apply spec_tag_bytes_ok; [exact Hvn|pose proof (wire_of_range k); lia]|apply spec_payload_bytes_ok, Hx]. }
        assert (Hd1 : ref_decode (S G) s idx (spec_field k (fnum f) x) (t0, u) = Some (set_nth t0 slot (VList (acc ++ [x])), u)).
        { apply (decode_one_token s G idx m Hm Hnd slot f _ _ t0 u _ Hin (tokens_single _ _ (spec_field_nonempty k (fnum f) x) Ep) eq_refl).
          rewrite Hk, Et, Hn. reflexivity. }
        destruct (IH (acc ++ [x]) (set_nth t0 slot (VList (acc ++ [x]))) Hal ltac:(apply nth_set_nth_in; exact Hsl) ltac:(rewrite set_nth_length; exact Hsl)) as [Hb2 Hd2].
        split; [apply bytes_ok_app; assumption|].
        rewrite (ref_decode_app (S G) s idx _ _ (t0, u) _ Hb1 Hd1), Hd2. rewrite set_nth_set_nth, <- app_assoc. reflexivity. }
    destruct (Nat.lt_ge_cases slot (length t)) as [Hsl|Hsl].
    + destruct (Gl l [] t Hall Hz Hsl) as [Hb Hd]. split; [exact Hb|]. rewrite Hd. reflexivity.
    + (* slot outside the target: nothing is ever stored; cannot happen for a target of the right length, but holds as well *)
      exfalso. rewrite nth_overflow in Hz by exact Hsl. discriminate Hz.
  - (* packed *)
    destruct l as [|x l'].
    + split; [constructor|]. rewrite (ref_decode_nil s idx m Hm), <- Hz, set_nth_same. reflexivity.
    + set (l := x :: l') in *. set (payload := flat_map (spec_payload k) l) in *.
      assert (Hbp : bytes_ok payload).
      { apply flat_map_bytes_ok. intros y Hy. apply spec_payload_bytes_ok. rewrite forallb_forall in Hall. apply Hall, Hy. }
      pose proof (ld_token (fnum f) payload [] Hv Hbp Hlen ltac:(constructor)) as Ep. rewrite app_nil_r in Ep.
      split.
      * unfold spec_ld. apply bytes_ok_app; [apply spec_tag_bytes_ok; lia|]. apply bytes_ok_app; [apply spec_varint_bytes_ok; lia|exact Hbp].
      * assert (Hne : spec_ld (fnum f) payload <> []).
        { unfold spec_ld, spec_tag. pose proof (spec_varint_nonempty (fnum f * 8 + 2)). destruct (spec_varint (fnum f * 8 + 2)); [congruence|discriminate]. }
        apply (decode_one_token s G idx m Hm Hnd slot f _ _ t u _ Hin (tokens_single _ _ Hne Ep) eq_refl).
        rewrite Hk. match goal with |- context[tok_scalar k ?tok] => rewrite (tok_scalar_bytes_none k tok payload Eb eq_refl) end. cbn [t_pay].
        pose proof (unpack_payloads k ltac:(unfold is_scalar_wire; rewrite Eb; reflexivity) l Hall (S (length payload)) ltac:(unfold payload; lia)) as Hu.
        fold payload in Hu. rewrite Hu, Hz. reflexivity.
Qed.
End ScalarRepRT.
