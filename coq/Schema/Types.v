(* Schemas, values and the emitted encode/decode programs (DESIGN.md 3.1). *)
From Coq Require Import List ZArith Bool.
From Pico Require Import Base.Res Base.Mach Wire.Wire.
Import ListNotations.
Open Scope Z_scope.

(* the 15 rows of internal/generatecoder's `types` table, in table order *)
Inductive kind :=
| KBool | KInt32 | KInt64 | KUint32 | KUint64 | KSint32 | KSint64 | KFixed32 | KFixed64
| KSfixed32 | KSfixed64 | KFloat | KDouble | KString | KBytes.

Definition all_kinds : list kind :=
  [KBool; KInt32; KInt64; KUint32; KUint64; KSint32; KSint64; KFixed32; KFixed64;
   KSfixed32; KSfixed64; KFloat; KDouble; KString; KBytes].

Definition kind_eqb (a b : kind) : bool :=
  match a, b with
  | KBool, KBool | KInt32, KInt32 | KInt64, KInt64 | KUint32, KUint32 | KUint64, KUint64
  | KSint32, KSint32 | KSint64, KSint64 | KFixed32, KFixed32 | KFixed64, KFixed64
  | KSfixed32, KSfixed32 | KSfixed64, KSfixed64 | KFloat, KFloat | KDouble, KDouble
  | KString, KString | KBytes, KBytes => true
  | _, _ => false
  end.

Inductive custom := CNone | CTimestamp | CDuration | COpaque.
Inductive ftype := TScalar (k : kind) | TEnum | TMsg (idx : nat) | TMap (kk vk : kind)
  | TMapOther.   (* map whose value is a message or enum: outside the generator's feature set *)
Inductive label := LSingular | LOptional | LRepeated.

Record fdesc := {
  fnum : Z;
  fty : ftype;
  flabel : label;
  foneof : option nat;          (* index of the real oneof inside the message *)
  f_always_present : bool;      (* (pico.field).always_present *)
  f_custom : custom
}.
Record mdesc := {
  mfields : list fdesc;         (* declaration order *)
  m_always_present : bool;      (* (pico.message).always_present *)
  m_capture : bool              (* (pico.message).capture_unrecognized_fields *)
}.
Definition schema := list mdesc.

(* one universe of values for all schemas; one val per field slot *)
Inductive val :=
| VInt (z : Z)                   (* scalar: Go value; floats = IEEE bit pattern; bool 0/1 *)
| VBytes (l : bytes)             (* string / bytes *)
| VOpt (o : option val)          (* optional pointer; scalar oneof member *)
| VList (l : list val)           (* repeated *)
| VMsg (o : option (list val * bytes))   (* pointer message: nil / fields + unrecognized *)
| VEmb (fs : list val) (unrec : bytes)   (* always-present (embedded) message *)
| VMap (l : list (val * val))    (* map, in iteration order *)
| VTime (sec nsec : Z)           (* time.Time as (Unix(), Nanosecond()) *)
| VDur (ns : Z).                 (* time.Duration *)

Definition zero_time_sec : Z := -62135596800.

(* ---- programs emitted by protoc-gen-pico (one op per generated statement group) *)
Inductive cast := CastTs | CastDur | CastMap (kk vk : kind).

Inductive eop :=
| EScalar (k : kind) (always rep ptr : bool) (slot : nat) (num : Z)
     (* c.[Always][Repeated]K(num, &m.F)   /  if m.F != nil { c...(num, m.F) } *)
| EMsgPtr (slot : nat) (num : Z) (idx : nat)        (* c.Message(num, m.F.Encode) *)
| EMsgRepPtr (slot : nat) (num : Z) (idx : nat)     (* for x: c.AlwaysMessage(num, x.Encode) *)
| EMsgPresent (slot : nat) (num : Z) (idx : nat)    (* c.PresentMessage(num, m.F.Encode) *)
| EMsgRepVal (slot : nat) (num : Z) (idx : nat)     (* for i: c.AlwaysMessage(num, (&m.F[i]).Encode) *)
| EMsgAlwaysVal (slot : nat) (num : Z) (idx : nat)  (* c.AlwaysMessage(num, m.F.Encode): by-value member of a oneof *)
| EEnum (always : bool) (slot : nat) (num : Z)      (* c.[Always]Int32(num, int32ptr(&m.F)) *)
| ERepEnum (slot : nat) (num : Z)
| ECast (c : cast) (ptr rep : bool) (slot : nat) (num : Z)
| EOpaque (slot : nat) (num : Z)                    (* custom type without modelled semantics *)
| EOneof (slot : nat) (inner : eop)                 (* if m, ok := m.X.(W); ok { inner } *)
| EUnrec.                                           (* c.UnrecognizedFields(m.XXX_unrecognized) *)

Inductive dop :=
| DScalar (k : kind) (rep ptr : bool) (slot : nat) (num : Z)
| DMsgPtr (slot : nat) (num : Z) (idx : nat)
| DMsgRepPtr (slot : nat) (num : Z) (idx : nat)
| DMsgPresent (slot : nat) (num : Z) (idx : nat)
| DMsgRepVal (slot : nat) (num : Z) (idx : nat)
| DEnum (slot : nat) (num : Z)
| DRepEnum (slot : nat) (num : Z)
| DCast (c : cast) (ptr rep : bool) (slot : nat) (num : Z)
| DOpaque (slot : nat) (num : Z)
| DOneof (slot : nat) (num : Z) (siblings : list nat) (inner : dop)
| DUnrec (mask : Z).

(* helpers on values *)
Definition as_int (v : val) : Z := match v with VInt z => z | _ => 0 end.
Definition as_bytes (v : val) : bytes := match v with VBytes b => b | _ => [] end.
Definition as_list (v : val) : list val := match v with VList l => l | _ => [] end.

Fixpoint set_nth {A} (l : list A) (i : nat) (x : A) : list A :=
  match l, i with
  | [], _ => []
  | _ :: t, O => x :: t
  | h :: t, S j => h :: set_nth t j x
  end.
