(* The typed writers/readers handle exactly one reference-encoded field (C13, C15):
   every row of the scalar table against the closed forms of the specification. *)
From Coq Require Import List ZArith Lia Bool Arith.
From Pico Require Import Base.Res Base.ListX Base.Mach Wire.Wire Schema.Types Schema.Scalar Ref.Ref
  Wire.VarintProofs Wire.WireProofs Wire.ZigZagProofs Wire.FixedProofs.
Import ListNotations.
Open Scope Z_scope.

Lemma in_sb_spec w z : in_sb w z = true -> - 2 ^ (w - 1) <= z < 2 ^ (w - 1).
Proof. unfold in_sb. intros H. apply andb_true_iff in H. destruct H as [A B]. apply Z.leb_le in A. apply Z.ltb_lt in B. lia. Qed.
Lemma in_ub_spec w z : in_ub w z = true -> 0 <= z < 2 ^ w.
Proof. unfold in_ub. intros H. apply andb_true_iff in H. destruct H as [A B]. apply Z.leb_le in A. apply Z.ltb_lt in B. lia. Qed.

Definition P32 : Z := 4294967296.
Definition P64 : Z := 18446744073709551616.

(* the integer handed to Append<Suffix> is in range of the primitive *)
Lemma enc_tr_range k z : scalar_ok k (VInt z) = true ->
  match wire_of k with
  | 5 => 0 <= enc_tr k z < 2 ^ 32
  | _ => 0 <= enc_tr k z < 2 ^ 64
  end.
Proof.
  destruct k; cbn [scalar_ok wire_of enc_tr]; intros H;
    try (apply in_sb_spec in H); try (apply in_ub_spec in H);
    change (2 ^ (32 - 1)) with 2147483648 in *; change (2 ^ (64 - 1)) with 9223372036854775808 in *;
    change (2 ^ 32) with 4294967296 in *; change (2 ^ 64) with 18446744073709551616 in *;
    unfold VarintType, Fixed32Type, Fixed64Type, BytesType.
  - destruct (z =? 0); lia.
  - unfold u64, u. change (2 ^ 64) with 18446744073709551616. apply Z.mod_pos_bound. lia.
  - unfold u64, u. change (2 ^ 64) with 18446744073709551616. apply Z.mod_pos_bound. lia.
  - lia.
  - lia.
  - rewrite encode_zigzag32_spec by (unfold in_s; change (2 ^ (32 - 1)) with 2147483648; lia).
    pose proof (zz_range 32 z ltac:(lia)) as R. change (2 ^ (32 - 1)) with 2147483648 in R. change (2 ^ 32) with 4294967296 in R. lia.
  - rewrite encode_zigzag64_spec by (unfold in_s; change (2 ^ (64 - 1)) with 9223372036854775808; lia).
    pose proof (zz_range 64 z ltac:(lia)) as R. change (2 ^ (64 - 1)) with 9223372036854775808 in R. change (2 ^ 64) with 18446744073709551616 in R. lia.
  - lia.
  - lia.
  - unfold u32, u. change (2 ^ 32) with 4294967296. apply Z.mod_pos_bound. lia.
  - unfold u64, u. change (2 ^ 64) with 18446744073709551616. apply Z.mod_pos_bound. lia.
  - lia.
  - lia.
  - discriminate.
  - discriminate.
Qed.

Lemma bytes_len_ok k b : is_bytes_kind k = true -> scalar_ok k (VBytes b) = true -> u64_ok (Z.of_nat (length b)).
Proof.
  intros Hk H.
  assert (L : Z.of_nat (length b) < 2 ^ 63).
  { destruct k; try discriminate Hk; cbn [scalar_ok] in H; apply andb_true_iff in H; destruct H as [_ H];
      apply Z.ltb_lt in H; exact H. }
  change (2 ^ 63) with 9223372036854775808 in L. unfold u64_ok. change (2 ^ 64) with 18446744073709551616. lia.
Qed.

(* --- C13/C15 encoder side: the payload bytes are the closed form of the encoding document *)
Theorem enc_payload_spec k v : scalar_ok k v = true -> enc_payload k v = spec_payload k v.
Proof.
  intros Hok.
  destruct k; destruct v as [z|b| | | | | | |]; try discriminate Hok;
    pose proof (enc_tr_range _ _ Hok) as R || idtac;
    unfold enc_payload, spec_payload; cbn [wire_of as_int as_bytes enc_tr] in *;
    unfold VarintType, Fixed32Type, Fixed64Type, BytesType in *.
  - (* bool *) rewrite append_varint_spec by exact R. destruct (z =? 0); reflexivity.
  - rewrite append_varint_spec by exact R. reflexivity.
  - rewrite append_varint_spec by exact R. reflexivity.
  - rewrite append_varint_spec by exact R. reflexivity.
  - rewrite append_varint_spec by exact R. reflexivity.
  - cbn [scalar_ok] in Hok. apply in_sb_spec in Hok.
    rewrite append_varint_spec by exact R. rewrite encode_zigzag32_spec by exact Hok. reflexivity.
  - cbn [scalar_ok] in Hok. apply in_sb_spec in Hok.
    rewrite append_varint_spec by exact R. rewrite encode_zigzag64_spec by exact Hok. reflexivity.
  - apply append_fixed32_spec.
  - apply append_fixed64_spec.
  - apply append_fixed32_spec.
  - apply append_fixed64_spec.
  - apply append_fixed32_spec.
  - apply append_fixed64_spec.
  - unfold append_bytes. rewrite append_varint_spec; [reflexivity|]. apply (bytes_len_ok KString); [reflexivity|exact Hok].
  - unfold append_bytes. rewrite append_varint_spec; [reflexivity|]. apply (bytes_len_ok KBytes); [reflexivity|exact Hok].
Qed.

Ltac Zify.zify_post_hook ::= Z.div_mod_to_equations.

Ltac norm_pows :=
  change (2 ^ (32 - 1)) with 2147483648 in *; change (2 ^ (64 - 1)) with 9223372036854775808 in *;
  change (2 ^ 32) with 4294967296 in *; change (2 ^ 64) with 18446744073709551616 in *;
  change (2 ^ 63) with 9223372036854775808 in *; change (2 ^ 31) with 2147483648 in *.

Lemma s32_u64 z : - 2 ^ 31 <= z < 2 ^ 31 -> s32 (u64 z) = z.
Proof. unfold s32, s, u64, u. norm_pows. intros. lia. Qed.
Lemma s64_u64 z : - 2 ^ 63 <= z < 2 ^ 63 -> s64 (u64 z) = z.
Proof. unfold s64, s, u64, u. norm_pows. intros. lia. Qed.
Lemma s32_u32 z : - 2 ^ 31 <= z < 2 ^ 31 -> s32 (u32 z) = z.
Proof. unfold s32, s, u32, u. norm_pows. intros. lia. Qed.
Lemma u32_small z : 0 <= z < 2 ^ 32 -> u32 z = z.
Proof. unfold u32, u. norm_pows. intros. lia. Qed.

(* decode transform inverts encode transform on the whole domain of every kind *)
Theorem dec_enc_tr k z : scalar_ok k (VInt z) = true -> dec_tr k (enc_tr k z) = z.
Proof.
  destruct k; cbn [scalar_ok dec_tr enc_tr]; intros H;
    try (apply in_sb_spec in H); try (apply in_ub_spec in H); norm_pows; try discriminate.
  - apply orb_true_iff in H. destruct H as [H|H]; apply Z.eqb_eq in H; subst; reflexivity.
  - apply s32_u64. norm_pows. lia.
  - apply s64_u64. norm_pows. lia.
  - apply u32_small. norm_pows. lia.
  - reflexivity.
  - rewrite encode_zigzag32_spec by (unfold in_s; norm_pows; lia).
    pose proof (zz_range 32 z ltac:(lia)) as R. norm_pows.
    rewrite u32_small by (norm_pows; apply R; lia).
    rewrite decode_zigzag32_spec by (norm_pows; apply R; lia). apply unzz_zz.
  - rewrite encode_zigzag64_spec by (unfold in_s; norm_pows; lia).
    pose proof (zz_range 64 z ltac:(lia)) as R. norm_pows.
    rewrite decode_zigzag64_spec by (norm_pows; apply R; lia). apply unzz_zz.
  - reflexivity.
  - reflexivity.
  - apply s32_u32. norm_pows. lia.
  - apply s64_u64. norm_pows. lia.
  - reflexivity.
  - reflexivity.
Qed.

Lemma consume_bytes_append b rest : u64_ok (Z.of_nat (length b)) ->
  consume_bytes (append_bytes b ++ rest) = (b, Z.of_nat (length (append_bytes b))).
Proof.
  intros H. unfold consume_bytes, append_bytes. rewrite <- app_assoc.
  rewrite consume_append_varint by exact H.
  set (n := length (append_varint (Z.of_nat (length b)))).
  replace (Z.of_nat n <? 0) with false by (symmetry; apply Z.ltb_ge; lia).
  rewrite Nat2Z.id. rewrite (skipn_app_l _ (b ++ rest) n) by reflexivity.
  rewrite not_has_len_z. rewrite app_length.
  replace (Z.of_nat (length b + length rest) <? Z.of_nat (length b)) with false by (symmetry; apply Z.ltb_ge; lia).
  rewrite Nat2Z.id. rewrite (firstn_app_l b rest) by reflexivity.
  f_equal. rewrite app_length. fold n. lia.
Qed.

(* --- C13/C15 decoder side: reading back exactly the field that was written *)
Theorem dec_enc_payload k v rest : scalar_ok k v = true ->
  dec_payload k (enc_payload k v ++ rest) = (v, Z.of_nat (length (enc_payload k v))).
Proof.
  intros Hok. pose proof Hok as Hok'.
  destruct v as [z|b| | | | | | |]; try (destruct k; discriminate Hok).
  - pose proof (enc_tr_range k z Hok) as R. pose proof (dec_enc_tr k z Hok) as D.
    unfold dec_payload, enc_payload. cbn [as_int].
    destruct k; try discriminate Hok; cbn [wire_of] in *; unfold VarintType, Fixed32Type, Fixed64Type, BytesType in *.
    all: try (rewrite consume_append_varint by exact R; rewrite D; reflexivity).
    all: try (rewrite consume_append_fixed32 by exact R; rewrite D; reflexivity).
    all: try (rewrite consume_append_fixed64 by exact R; rewrite D; reflexivity).
  - assert (Hb : is_bytes_kind k = true) by (destruct k; try discriminate Hok; reflexivity).
    pose proof (bytes_len_ok k b Hb Hok) as L.
    unfold dec_payload, enc_payload. cbn [as_bytes].
    destruct k; try discriminate Hb; cbn [wire_of]; unfold BytesType;
      rewrite consume_bytes_append by exact L; reflexivity.
Qed.

(* --- C13 writers: [Always]K(field, v) appends exactly the reference field, or nothing *)
Lemma is_default_spec k v : scalar_ok k v = true -> is_default k v = spec_default k v.
Proof.
  destruct k; destruct v as [z|b| | | | | | |]; try discriminate; intros _; try reflexivity;
    unfold is_default, spec_default; cbn [is_bytes_kind as_bytes]; destruct b; reflexivity.
Qed.

Lemma wire_of_range k : 0 <= wire_of k < 8.
Proof. destruct k; cbn; unfold VarintType, Fixed32Type, Fixed64Type, BytesType; lia. Qed.

Theorem enc_single_spec k always num v buf :
  scalar_ok k v = true -> valid_number num = true ->
  Enc.enc_single k always num v buf =
  buf ++ (if negb always && spec_default k v then [] else spec_field k num v).
Proof.
  intros Hok Hnum. unfold Enc.enc_single. rewrite is_default_spec by exact Hok.
  destruct (negb always && spec_default k v); [rewrite app_nil_r; reflexivity|].
  unfold spec_field. rewrite enc_payload_spec by exact Hok.
  rewrite append_tag_spec; [reflexivity| |apply wire_of_range].
  unfold valid_number in Hnum. apply andb_true_iff in Hnum. destruct Hnum as [A B].
  apply Z.leb_le in A. apply Z.leb_le in B. lia.
Qed.

(* --- C02: the decode transforms are the protobuf rules (narrowing, zig-zag, bool),
   for EVERY wire value, not only the ones picobuf itself writes *)
Theorem dec_tr_spec k x : 0 <= x < 2 ^ 64 -> dec_tr k x = spec_conv k x.
Proof.
  intros Hx. destruct k; cbn [dec_tr spec_conv]; try reflexivity.
  - unfold u32, u. rewrite decode_zigzag32_spec; [reflexivity|]. apply Z.mod_pos_bound. lia.
  - apply decode_zigzag64_spec. exact Hx.
Qed.
