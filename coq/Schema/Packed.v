(* C02: packed and unpacked encodings of a repeated scalar field mean the same (a statement about two inputs),
   and any run of complete records may be replaced by another run with the same effect. *)
From Coq Require Import List ZArith Lia Bool Arith.
From Pico Require Import Base.Res Base.ListX Base.Mach Wire.Wire Schema.Types Schema.Scalar Schema.Gen Schema.Conv Schema.Interp Ref.Ref
  Dec.Dec Dec.SafetyProofs Dec.LoopInst Dec.TokenBridge Dec.TokenApp Dec.StreamLoop Schema.TDec Schema.Concat Schema.Fuel Schema.ScalarProofs Schema.EncSpec Schema.RoundTrip.
Import ListNotations.
Open Scope Z_scope.

(* ---------------------------------------------------------------- replacing a run of records inside an input *)
Theorem ref_decode_middle g s idx m a X1 X2 c ta ts1 ts2 x : nth_error s idx = Some m ->
  bytes_ok a -> bytes_ok X1 -> bytes_ok X2 -> tokens a = Some ta -> tokens X1 = Some ts1 -> tokens X2 = Some ts2 ->
  (forall o, fold_opt (apply_token s (ref_decode g s) m) ts1 o = fold_opt (apply_token s (ref_decode g s) m) ts2 o) ->
  ref_decode (S g) s idx (a ++ X1 ++ c) x = ref_decode (S g) s idx (a ++ X2 ++ c) x.
Proof.
  intros Hm Ha H1 H2 Ta T1 T2 Heq. rewrite !ref_decode_unfold, Hm.
  rewrite (tokens_app a (X1 ++ c) ta Ha Ta), (tokens_app a (X2 ++ c) ta Ha Ta).
  rewrite (tokens_app X1 c ts1 H1 T1), (tokens_app X2 c ts2 H2 T2).
  destruct (tokens c) as [tc|]; [|reflexivity]. cbv beta iota.
  rewrite !fold_opt_app. rewrite Heq. reflexivity.
Qed.

(* ---------------------------------------------------------------- records that differ only in how their value is spelt *)
(* The reference decoder looks at a record of a known field only through its number, wire type and parsed payload
   (not at the bytes the payload was spelt with): a varint written with redundant continuation groups, a tag or a
   length prefix written non-minimally give the same token up to t_raw, hence the same result. The bytes t_raw
   matter only for an unknown field of a capturing message, which must be forwarded as received (C10). *)
Lemma apply_token_raw s rec m t1 t2 x : t_num t1 = t_num t2 -> t_wt t1 = t_wt t2 -> t_pay t1 = t_pay t2 ->
  (find_field m (t_num t1) <> None \/ m_capture m = false) ->
  apply_token s rec m t1 x = apply_token s rec m t2 x.
Proof.
  intros En Ew Ep Hk. unfold apply_token. rewrite <- En. destruct (find_field m (t_num t1)) as [[slot f]|].
  - assert (E : apply_known s rec m slot f t1 (fst x) = apply_known s rec m slot f t2 (fst x)); [|rewrite E; reflexivity].
    unfold apply_known, tok_scalar. rewrite Ep, Ew. reflexivity.
  - destruct Hk as [Hk|Hk]; [congruence|]. rewrite Hk. reflexivity.
Qed.

Theorem same_meaning_records g s idx m a r1 r2 c ta t1 t2 x : nth_error s idx = Some m ->
  bytes_ok a -> bytes_ok r1 -> bytes_ok r2 -> tokens a = Some ta -> tokens r1 = Some [t1] -> tokens r2 = Some [t2] ->
  t_num t1 = t_num t2 -> t_wt t1 = t_wt t2 -> t_pay t1 = t_pay t2 -> (find_field m (t_num t1) <> None \/ m_capture m = false) ->
  ref_decode (S g) s idx (a ++ r1 ++ c) x = ref_decode (S g) s idx (a ++ r2 ++ c) x.
Proof.
  intros Hm Ha H1 H2 Ta T1 T2 En Ew Ep Hk.
  apply (ref_decode_middle g s idx m a r1 r2 c ta [t1] [t2] x Hm Ha H1 H2 Ta T1 T2).
  intros [y|]; [|reflexivity]. cbn [fold_opt fold_left]. rewrite (apply_token_raw s _ m t1 t2 y En Ew Ep Hk). reflexivity.
Qed.

Section Packed.
Variables (s : schema) (g : nat) (idx : nat) (m : mdesc).
Hypothesis Hm : nth_error s idx = Some m.
Hypothesis Hnd : NoDup (map fnum (mfields m)).
Variables (k : kind) (slot : nat) (f : fdesc).
Hypothesis Hin : In (slot, f) (number_from 0 (mfields m)).
Hypothesis Hc : f_custom f = CNone.
Hypothesis Ht : fty f = TScalar k \/ (fty f = TEnum /\ k = KInt32).
Hypothesis Hr : i_repeated (field_info s f) = true.
Hypothesis Hno : foneof f = None.
Hypothesis Hv : valid_number (fnum f) = true.
Hypothesis Hk : is_bytes_kind k = false.

Let h := apply_token s (ref_decode g s) m.

(* what one token of the field does to the target *)
Lemma rep_token tok y : t_num tok = fnum f ->
  h tok y =
  match tok_scalar k tok with
  | Some x => Some (set_nth (fst y) slot (VList (as_list (nth slot (fst y) (VInt 0)) ++ [x])), snd y)
  | None => match t_pay tok with
            | PBytes b => match unpack (S (length b)) k b with
                          | Some xs => Some (set_nth (fst y) slot (VList (as_list (nth slot (fst y) (VInt 0)) ++ xs)), snd y)
                          | None => None end
            | _ => None end
  end.
Proof.
  intros En. unfold h, apply_token. rewrite En, (find_field_known m Hnd slot f Hin). unfold apply_known.
  rewrite Hc, Hr, (clear_siblings_none m f slot (fst y) Hno).
  destruct Ht as [E|[E ->]]; rewrite E; cbn [kind_of_ftype]; [rewrite Hk|cbn [is_bytes_kind]];
    destruct (tok_scalar _ tok); try reflexivity; destruct (t_pay tok); try reflexivity; destruct (unpack _ _ _); reflexivity.
Qed.

Definition upd (y : msgv) (vs : list val) : msgv :=
  (set_nth (fst y) slot (VList (as_list (nth slot (fst y) (VInt 0)) ++ vs)), snd y).

Lemma upd_upd y a b : a <> [] -> upd (upd y a) b = upd y (a ++ b).
Proof.
  intros Ha. unfold upd. cbn [fst snd]. destruct (Nat.lt_ge_cases slot (length (fst y))) as [Hs|Hs].
  - rewrite nth_set_nth_in by exact Hs. cbn [as_list]. rewrite set_nth_set_nth, app_assoc. reflexivity.
  - rewrite !(set_nth_out (fst y)) by exact Hs. reflexivity.
Qed.

(* the unpacked form: one record per element; its tokens append the elements one by one *)
Lemma unpacked_tokens : forall l, forallb (scalar_ok k) l = true ->
  bytes_ok (flat_map (spec_field k (fnum f)) l) /\
  exists ts, tokens (flat_map (spec_field k (fnum f)) l) = Some ts /\
             forall y, l <> [] -> fold_opt h ts (Some y) = Some (upd y l).
Proof.
  assert (Hvn : 0 <= fnum f) by (unfold valid_number in Hv; apply andb_true_iff in Hv; destruct Hv as [H1 _]; apply Z.leb_le in H1; lia).
  induction l as [|x l IH]; intros Hal.
  - split; [constructor|]. exists []. split; [apply tokens_nil|]. intros y Hne. congruence.
  - cbn [flat_map forallb] in *. apply andb_true_iff in Hal. destruct Hal as [Hx Hal]. destruct (IH Hal) as [Hb [ts [Ets Hf]]].
    assert (Hb1 : bytes_ok (spec_field k (fnum f) x)).
    { unfold spec_field. apply bytes_ok_app; [apply spec_tag_bytes_ok; [exact Hvn|pose proof (wire_of_range k); lia]|apply spec_payload_bytes_ok, Hx]. }
    split; [apply bytes_ok_app; assumption|].
    destruct (tokens_field_cons k (fnum f) x (flat_map (spec_field k (fnum f)) l) Hv Hx Hb) as [tok [Et [En Es]]].
    rewrite Ets in Et. exists (tok :: ts). split; [exact Et|]. intros y _.
    rewrite fold_opt_cons. rewrite (rep_token tok y En), Es. fold (upd y [x]).
    destruct l as [|x' l'].
    + cbn [flat_map] in Ets. rewrite tokens_nil in Ets. injection Ets as <-. reflexivity.
    + rewrite (Hf (upd y [x]) ltac:(discriminate)). rewrite upd_upd by discriminate. reflexivity.
Qed.

(* the packed form: one length-delimited record holding the payloads back to back *)
Lemma packed_token l : forallb (scalar_ok k) l = true -> lenb (flat_map (spec_payload k) l) = true -> l <> [] ->
  bytes_ok (spec_ld (fnum f) (flat_map (spec_payload k) l)) /\
  exists tok, tokens (spec_ld (fnum f) (flat_map (spec_payload k) l)) = Some [tok] /\
              forall y, fold_opt h [tok] (Some y) = Some (upd y l).
Proof.
  intros Hal Hlen Hne. set (payload := flat_map (spec_payload k) l).
  assert (Hvn : 0 <= fnum f) by (unfold valid_number in Hv; apply andb_true_iff in Hv; destruct Hv as [H1 _]; apply Z.leb_le in H1; lia).
  assert (Hbp : bytes_ok payload).
  { apply flat_map_bytes_ok. intros y Hy. apply spec_payload_bytes_ok. rewrite forallb_forall in Hal. apply Hal, Hy. }
  split; [apply spec_ld_bytes_ok; assumption|].
  pose proof (ld_token (fnum f) payload [] Hv Hbp Hlen ltac:(constructor)) as Ep. rewrite app_nil_r in Ep.
  eexists. split; [apply (tokens_single _ _ (spec_ld_nonempty _ _) Ep)|].
  intros y. cbn [fold_opt fold_left]. rewrite rep_token by reflexivity.
  match goal with |- context[tok_scalar k ?tok] => rewrite (tok_scalar_bytes_none k tok payload Hk eq_refl) end. cbn [t_pay].
  pose proof (unpack_payloads k ltac:(unfold is_scalar_wire; rewrite Hk; reflexivity) l Hal (S (length payload)) ltac:(unfold payload; lia)) as Hu.
  fold payload in Hu. rewrite Hu. reflexivity.
Qed.

(* C02, packed <-> unpacked: anywhere in an input, the packed record of a non-empty list of values of a repeated
   scalar (or enum) field may be replaced by one record per value, and vice versa: the reference decoder returns
   the same verdict and the same value *)
Theorem packed_unpacked_same a c ta l x : bytes_ok a -> tokens a = Some ta ->
  forallb (scalar_ok k) l = true -> lenb (flat_map (spec_payload k) l) = true -> l <> [] ->
  ref_decode (S g) s idx (a ++ spec_ld (fnum f) (flat_map (spec_payload k) l) ++ c) x =
  ref_decode (S g) s idx (a ++ flat_map (spec_field k (fnum f)) l ++ c) x.
Proof.
  intros Ha Ta Hal Hlen Hne.
  destruct (packed_token l Hal Hlen Hne) as [Hb1 [tok [T1 F1]]]. destruct (unpacked_tokens l Hal) as [Hb2 [ts [T2 F2]]].
  apply (ref_decode_middle g s idx m a _ _ c ta [tok] ts x Hm Ha Hb1 Hb2 Ta T1 T2).
  intros [y|]; [|rewrite !fold_opt_none; reflexivity]. fold h. rewrite F1, (F2 y Hne). reflexivity.
Qed.

(* a packed record may also be cut in two (a sender may flush a repeated field in several packed chunks) *)
Theorem packed_split a c ta l1 l2 x : bytes_ok a -> tokens a = Some ta ->
  forallb (scalar_ok k) l1 = true -> forallb (scalar_ok k) l2 = true -> l1 <> [] -> l2 <> [] ->
  lenb (flat_map (spec_payload k) (l1 ++ l2)) = true -> lenb (flat_map (spec_payload k) l1) = true -> lenb (flat_map (spec_payload k) l2) = true ->
  ref_decode (S g) s idx (a ++ spec_ld (fnum f) (flat_map (spec_payload k) (l1 ++ l2)) ++ c) x =
  ref_decode (S g) s idx (a ++ (spec_ld (fnum f) (flat_map (spec_payload k) l1) ++ spec_ld (fnum f) (flat_map (spec_payload k) l2)) ++ c) x.
Proof.
  intros Ha Ta H1 H2 N1 N2 L12 L1 L2.
  assert (H12 : forallb (scalar_ok k) (l1 ++ l2) = true) by (rewrite forallb_app, H1, H2; reflexivity).
  assert (N12 : l1 ++ l2 <> []) by (destruct l1; [congruence|discriminate]).
  destruct (packed_token (l1 ++ l2) H12 L12 N12) as [Hb [tok [T F]]].
  destruct (packed_token l1 H1 L1 N1) as [Hb1 [tok1 [T1 F1]]]. destruct (packed_token l2 H2 L2 N2) as [Hb2 [tok2 [T2 F2]]].
  apply (ref_decode_middle g s idx m a _ _ c ta [tok] [tok1; tok2] x Hm Ha Hb (bytes_ok_app _ _ Hb1 Hb2) Ta T).
  - rewrite (tokens_app _ _ [tok1] Hb1 T1), T2. reflexivity.
  - intros [y|]; [|rewrite !fold_opt_none; reflexivity]. fold h. rewrite F.
    change [tok1; tok2] with ([tok1] ++ [tok2]). rewrite fold_opt_app, F1, F2, upd_upd by exact N1. reflexivity.
Qed.
End Packed.

(* ---------------------------------------------------------------- the same for Unmarshal of generated code *)
Definition same_outcome (u1 u2 : option (Z * ecls) * msgv) : Prop :=
  (fst u1 = None <-> fst u2 = None) /\ (fst u1 = None -> snd u1 = snd u2).

(* two inputs on which the reference decoder agrees (at every sufficient nesting budget) are decoded alike by Unmarshal *)
Lemma unmarshal_agree s progs idx d1 d2 t0 : gen_all s = GOk progs -> tdec_applies_at s idx = true -> bytes_ok d1 -> bytes_ok d2 ->
  (forall g, (length d1 < S g)%nat -> (length d2 < S g)%nat -> ref_decode (S g) s idx d1 t0 = ref_decode (S g) s idx d2 t0) ->
  same_outcome (pico_unmarshal progs idx d1 t0) (pico_unmarshal progs idx d2 t0).
Proof.
  intros Hgen Happ Hb1 Hb2 Heq.
  pose proof (T_dec_at s progs idx d1 t0 Hgen Happ Hb1) as D1. pose proof (T_dec_at s progs idx d2 t0 Hgen Happ Hb2) as D2. cbv zeta in D1, D2.
  set (R1 := ref_decode (S (S (S (length d1)))) s idx d1 t0) in D1. set (R2 := ref_decode (S (S (S (length d2)))) s idx d2 t0) in D2.
  assert (ER : R1 = R2).
  { unfold R1, R2. set (g := (length d1 + length d2 + 2)%nat).
    rewrite (ref_decode_fuel s (length d1) d1 eq_refl Hb1 (S (S (S (length d1)))) (S g) idx t0 ltac:(lia) ltac:(unfold g; lia)).
    rewrite (ref_decode_fuel s (length d2) d2 eq_refl Hb2 (S (S (S (length d2)))) (S g) idx t0 ltac:(lia) ltac:(unfold g; lia)).
    apply Heq; unfold g; lia. }
  clearbody R1 R2. subst R1. unfold same_outcome.
  destruct R2 as [y|].
  - destruct D1 as [E1 V1]. destruct D2 as [E2 V2]. split; [split; intros _; [exact E2|exact E1]|intros _; rewrite V1, V2; reflexivity].
  - split; [split; intros E; exfalso; [exact (D1 E)|exact (D2 E)]|intros E; exfalso; exact (D1 E)].
Qed.

Theorem unmarshal_packed_unpacked s progs idx m k slot f a c ta l t0 :
  gen_all s = GOk progs -> tdec_applies_at s idx = true -> nth_error s idx = Some m -> NoDup (map fnum (mfields m)) ->
  In (slot, f) (number_from 0 (mfields m)) -> f_custom f = CNone -> (fty f = TScalar k \/ (fty f = TEnum /\ k = KInt32)) ->
  i_repeated (field_info s f) = true -> foneof f = None -> valid_number (fnum f) = true -> is_bytes_kind k = false ->
  bytes_ok a -> bytes_ok c -> tokens a = Some ta ->
  forallb (scalar_ok k) l = true -> lenb (flat_map (spec_payload k) l) = true -> l <> [] ->
  same_outcome (pico_unmarshal progs idx (a ++ spec_ld (fnum f) (flat_map (spec_payload k) l) ++ c) t0)
               (pico_unmarshal progs idx (a ++ flat_map (spec_field k (fnum f)) l ++ c) t0).
Proof.
  intros Hgen Happ Hm Hnd Hin Hc Ht Hr Hno Hv Hk Ha Hcb Ta Hal Hlen Hne.
  destruct (packed_token s 0 m Hnd k slot f Hin Hc Ht Hr Hno Hv Hk l Hal Hlen Hne) as [Hb1 _].
  destruct (unpacked_tokens s 0 m Hnd k slot f Hin Hc Ht Hr Hno Hv Hk l Hal) as [Hb2 _].
  apply (unmarshal_agree s progs idx _ _ t0 Hgen Happ).
  - apply bytes_ok_app; [exact Ha|apply bytes_ok_app; assumption].
  - apply bytes_ok_app; [exact Ha|apply bytes_ok_app; assumption].
  - intros g _ _. apply (packed_unpacked_same s g idx m Hm Hnd k slot f Hin Hc Ht Hr Hno Hv Hk a c ta l t0 Ha Ta Hal Hlen Hne).
Qed.

(* ---------------------------------------------------------------- non-minimal varints *)
(* v written in exactly k base-128 groups (redundant zero groups at the top when k exceeds the minimal length) *)
Fixpoint wide (k : nat) (v : Z) : bytes :=
  match k with
  | O => []
  | S O => [v]
  | S k' => (v mod 128 + 128) :: wide k' (v / 128)
  end.

Lemma wide_length k v : length (wide k v) = k.
Proof. revert v; induction k as [|[|k] IH]; intros v; [reflexivity|reflexivity|]. cbn [wide length] in *. rewrite IH. reflexivity. Qed.

Lemma wide_bytes_ok k : forall v, 0 <= v < 128 ^ Z.of_nat k -> bytes_ok (wide k v).
Proof.
  induction k as [|[|k] IH]; intros v Hv; [constructor| |].
  - change (128 ^ Z.of_nat 1) with 128 in Hv. constructor; [lia|constructor].
  - change (wide (S (S k)) v) with ((v mod 128 + 128) :: wide (S k) (v / 128)).
    pose proof (Z.mod_pos_bound v 128 ltac:(lia)). constructor; [lia|]. apply IH.
    split; [apply Z.div_pos; lia|]. apply Z.div_lt_upper_bound; [lia|].
    replace (Z.of_nat (S (S k))) with (Z.of_nat (S k) + 1) in Hv by lia. rewrite Z.pow_add_r in Hv by lia. lia.
Qed.

Lemma parse_wide k : forall n shift acc w rest,
  (1 <= k)%nat -> (k <= n)%nat -> 0 <= shift -> 0 <= acc -> 0 <= w < 128 ^ Z.of_nat k -> acc + w * 2 ^ shift < 2 ^ 64 ->
  parse_varint n (wide k w ++ rest) shift acc = Some (acc + w * 2 ^ shift, k).
Proof.
  induction k as [|[|k] IH]; intros n shift acc w rest Hk Hn Hs Hacc Hw Hlt; [lia| |].
  - destruct n as [|n]; [lia|]. change (128 ^ Z.of_nat 1) with 128 in Hw. cbn [wide app parse_varint].
    rewrite Z.mod_small by lia. replace (w <? 128) with true by (symmetry; apply Z.ltb_lt; lia).
    replace (acc + w * 2 ^ shift <? 2 ^ 64) with true by (symmetry; apply Z.ltb_lt; lia). reflexivity.
  - destruct n as [|n]; [lia|]. change (wide (S (S k)) w) with ((w mod 128 + 128) :: wide (S k) (w / 128)).
    assert (Hp : 0 < 2 ^ shift) by (apply Z.pow_pos_nonneg; lia).
    pose proof (Z.mod_pos_bound w 128 ltac:(lia)) as Hm. pose proof (Z.div_mod w 128 ltac:(lia)) as Hdm.
    cbn [app parse_varint].
    replace ((w mod 128 + 128) mod 128) with (w mod 128)
      by (rewrite <- Zplus_mod_idemp_r; change (128 mod 128) with 0; rewrite Z.add_0_r, Z.mod_mod by lia; reflexivity).
    replace (w mod 128 + 128 <? 128) with false by (symmetry; apply Z.ltb_ge; lia).
    assert (Hq : 0 <= w / 128 < 128 ^ Z.of_nat (S k)).
    { split; [apply Z.div_pos; lia|]. apply Z.div_lt_upper_bound; [lia|].
      replace (Z.of_nat (S (S k))) with (Z.of_nat (S k) + 1) in Hw by lia. rewrite Z.pow_add_r in Hw by lia. lia. }
    rewrite (IH n (shift + 7) _ (w / 128) rest); try lia.
    + f_equal. f_equal. rewrite Z.pow_add_r by lia. change (2 ^ 7) with 128. nia.
    + rewrite Z.pow_add_r by lia. change (2 ^ 7) with 128. nia.
Qed.

Lemma spec_parse_wide k v rest : (1 <= k <= 10)%nat -> 0 <= v < 128 ^ Z.of_nat k -> v < 2 ^ 64 ->
  spec_parse_varint (wide k v ++ rest) = Some (v, k).
Proof.
  intros Hk Hv H64. unfold spec_parse_varint. rewrite (parse_wide k 10 0 0 v rest); try lia.
  f_equal. f_equal. change (2 ^ 0) with 1. lia.
Qed.

(* a varint field whose tag is written in kt groups and whose value in kv groups: one token, the canonical record's up to t_raw *)
Lemma wide_varint_record num v kt kv : valid_number num = true ->
  (1 <= kt <= 10)%nat -> num * 8 < 128 ^ Z.of_nat kt -> (1 <= kv <= 10)%nat -> 0 <= v < 128 ^ Z.of_nat kv -> v < 2 ^ 64 ->
  bytes_ok (wide kt (num * 8) ++ wide kv v) /\
  tokens (wide kt (num * 8) ++ wide kv v) = Some [{| t_num := num; t_wt := 0; t_pay := PVarint v; t_raw := wide kv v |}].
Proof.
  intros Hv Hkt Ht Hkv Hvv H64.
  assert (Hn : 1 <= num <= 536870911).
  { unfold valid_number, MaxValidNumber in Hv. apply andb_true_iff in Hv. destruct Hv as [H1 H2]. apply Z.leb_le in H1. apply Z.leb_le in H2.
    change (2 ^ 29 - 1) with 536870911 in H2. lia. }
  split; [apply bytes_ok_app; apply wide_bytes_ok; lia|].
  apply tokens_single.
  - pose proof (wide_length kt (num * 8)). destruct (wide kt (num * 8)); [cbn in *; lia|discriminate].
  - unfold parse_token.
    assert (Et : spec_parse_varint (wide kt (num * 8) ++ wide kv v) = Some (num * 8, kt)).
    { apply spec_parse_wide; [lia|lia|]. change (2 ^ 64) with 18446744073709551616. lia. }
    rewrite Et.
    rewrite Z.div_mul, Z.mod_mul by lia.
    rewrite (valid_num_of_number num Hv). cbn [negb].
    pose proof (wide_length kt (num * 8)) as Lt. pose proof (wide_length kv v) as Lv.
    replace (skipn kt (wide kt (num * 8) ++ wide kv v)) with (wide kv v) by (symmetry; apply skipn_app_l; symmetry; exact Lt).
    cbn [parse_value]. pose proof (spec_parse_wide kv v [] Hkv Hvv H64) as Ev. rewrite app_nil_r in Ev. rewrite Ev.
    replace (firstn kv (wide kv v)) with (wide kv v) by (rewrite <- Lv at 2; symmetry; apply firstn_all).
    rewrite app_length, Lt, Lv. reflexivity.
Qed.

(* C02, non-minimal varints: a varint record of a known field (or of any field of a message that does not capture
   unknown fields) may be re-spelt with redundant groups in its tag and in its value, anywhere in the input *)
Theorem nonminimal_varint_same g s idx m a c ta num v kt kv kt' kv' x : nth_error s idx = Some m -> bytes_ok a -> tokens a = Some ta ->
  valid_number num = true -> 0 <= v -> v < 2 ^ 64 ->
  (1 <= kt <= 10)%nat -> num * 8 < 128 ^ Z.of_nat kt -> (1 <= kv <= 10)%nat -> v < 128 ^ Z.of_nat kv ->
  (1 <= kt' <= 10)%nat -> num * 8 < 128 ^ Z.of_nat kt' -> (1 <= kv' <= 10)%nat -> v < 128 ^ Z.of_nat kv' ->
  (find_field m num <> None \/ m_capture m = false) ->
  ref_decode (S g) s idx (a ++ (wide kt (num * 8) ++ wide kv v) ++ c) x =
  ref_decode (S g) s idx (a ++ (wide kt' (num * 8) ++ wide kv' v) ++ c) x.
Proof.
  intros Hm Ha Ta Hv H0 H64 Hkt Ht Hkv Hvv Hkt' Ht' Hkv' Hvv' Hk.
  destruct (wide_varint_record num v kt kv Hv Hkt Ht Hkv ltac:(lia) H64) as [B1 T1].
  destruct (wide_varint_record num v kt' kv' Hv Hkt' Ht' Hkv' ltac:(lia) H64) as [B2 T2].
  apply (same_meaning_records g s idx m a _ _ c ta _ _ x Hm Ha B1 B2 Ta T1 T2); try reflexivity. exact Hk.
Qed.

(* ---------------------------------------------------------------- 32-bit kinds narrow first
   C02, integer narrowing: for a field of kind int32, uint32, sint32 (or an enum) the meaning of a varint record depends
   only on the low 32 bits of the varint - zig-zag and the sign are applied after narrowing. Two records of the same known
   field whose varints agree modulo 2^32 (whatever their spelling) are interchangeable anywhere in the input. *)
Definition narrow32 (k : kind) : bool := match k with KInt32 | KUint32 | KSint32 => true | _ => false end.

Lemma spec_conv_narrows k v1 v2 : narrow32 k = true -> v1 mod 2 ^ 32 = v2 mod 2 ^ 32 -> spec_conv k v1 = spec_conv k v2.
Proof.
  intros Hk E. destruct k; try discriminate Hk; cbn [spec_conv].
  - unfold s32, s. change (2 ^ (32 - 1)) with 2147483648. rewrite <- (Zplus_mod_idemp_l v1), <- (Zplus_mod_idemp_l v2), E. reflexivity.
  - exact E.
  - rewrite E. reflexivity.
Qed.

Lemma apply_token_narrow s rec m t1 t2 slot f v1 v2 x :
  t_num t1 = t_num t2 -> t_wt t1 = t_wt t2 -> t_pay t1 = PVarint v1 -> t_pay t2 = PVarint v2 ->
  find_field m (t_num t1) = Some (slot, f) -> f_custom f = CNone ->
  (fty f = TEnum \/ exists k, fty f = TScalar k /\ narrow32 k = true) -> v1 mod 2 ^ 32 = v2 mod 2 ^ 32 ->
  apply_token s rec m t1 x = apply_token s rec m t2 x.
Proof.
  intros En Ew P1 P2 Hf Hc Hty E. unfold apply_token. rewrite <- En, Hf.
  assert (Ea : apply_known s rec m slot f t1 (fst x) = apply_known s rec m slot f t2 (fst x)); [|rewrite Ea; reflexivity].
  assert (Hk : narrow32 (kind_of_ftype (fty f)) = true).
  { destruct Hty as [Ht|[k [Ht Hk]]]; rewrite Ht; [reflexivity|exact Hk]. }
  assert (Ets : tok_scalar (kind_of_ftype (fty f)) t1 = tok_scalar (kind_of_ftype (fty f)) t2).
  { unfold tok_scalar. rewrite P1, P2, <- Ew, (spec_conv_narrows _ v1 v2 Hk E). reflexivity. }
  unfold apply_known. rewrite Hc.
  destruct Hty as [Ht|[k [Ht _]]]; rewrite Ht in *; cbn [kind_of_ftype] in *; rewrite Ets, P1, P2; reflexivity.
Qed.

Theorem narrow32_records_same g s idx m a c ta num slot f v1 v2 kt kv kt' kv' x : nth_error s idx = Some m -> bytes_ok a -> tokens a = Some ta ->
  valid_number num = true -> find_field m num = Some (slot, f) -> f_custom f = CNone ->
  (fty f = TEnum \/ exists k, fty f = TScalar k /\ narrow32 k = true) ->
  0 <= v1 < 2 ^ 64 -> 0 <= v2 < 2 ^ 64 -> v1 mod 2 ^ 32 = v2 mod 2 ^ 32 ->
  (1 <= kt <= 10)%nat -> num * 8 < 128 ^ Z.of_nat kt -> (1 <= kv <= 10)%nat -> v1 < 128 ^ Z.of_nat kv ->
  (1 <= kt' <= 10)%nat -> num * 8 < 128 ^ Z.of_nat kt' -> (1 <= kv' <= 10)%nat -> v2 < 128 ^ Z.of_nat kv' ->
  ref_decode (S g) s idx (a ++ (wide kt (num * 8) ++ wide kv v1) ++ c) x =
  ref_decode (S g) s idx (a ++ (wide kt' (num * 8) ++ wide kv' v2) ++ c) x.
Proof.
  intros Hm Ha Ta Hv Hf Hc Hty H1 H2 E Hkt Ht Hkv Hvv Hkt' Ht' Hkv' Hvv'.
  destruct (wide_varint_record num v1 kt kv Hv Hkt Ht Hkv (conj (proj1 H1) Hvv) (proj2 H1)) as [B1 T1].
  destruct (wide_varint_record num v2 kt' kv' Hv Hkt' Ht' Hkv' (conj (proj1 H2) Hvv') (proj2 H2)) as [B2 T2].
  apply (ref_decode_middle g s idx m a _ _ c ta _ _ x Hm Ha B1 B2 Ta T1 T2).
  intros [y|]; [|reflexivity]. cbn [fold_opt fold_left].
  rewrite (apply_token_narrow s _ m {| t_num := num; t_wt := 0; t_pay := PVarint v1; t_raw := wide kv v1 |}
             {| t_num := num; t_wt := 0; t_pay := PVarint v2; t_raw := wide kv' v2 |} slot f v1 v2 y eq_refl eq_refl eq_refl eq_refl Hf Hc Hty E). reflexivity.
Qed.
