(* picoconv arithmetic (C14): Duration split/join with int64 wrap-around, Timestamp
   normalisation, against the mathematical definitions of google.protobuf.Duration/Timestamp. *)
From Coq Require Import List ZArith Lia Bool.
From Pico Require Import Base.Res Base.Mach Wire.Wire Schema.Types Schema.Conv.
Open Scope Z_scope.

Ltac Zify.zify_post_hook ::= Z.to_euclidean_division_equations.

Definition int64 (x : Z) : Prop := - 9223372036854775808 <= x < 9223372036854775808.
Definition int32 (x : Z) : Prop := - 2147483648 <= x < 2147483648.
Definition MinInt64 : Z := - 9223372036854775808.
Definition MaxInt64 : Z := 9223372036854775807.

Lemma s64_id x : int64 x -> s64 x = x.
Proof. unfold int64, s64, s. change (2 ^ (64 - 1)) with 9223372036854775808. change (2 ^ 64) with 18446744073709551616. intros. lia. Qed.
Lemma s32_id x : int32 x -> s32 x = x.
Proof. unfold int32, s32, s. change (2 ^ (32 - 1)) with 2147483648. change (2 ^ 32) with 4294967296. intros. lia. Qed.
Lemma s64_range x : int64 (s64 x).
Proof. unfold int64, s64, s. change (2 ^ (64 - 1)) with 9223372036854775808. change (2 ^ 64) with 18446744073709551616. lia. Qed.
Lemma s64_cong x : exists q, s64 x = x + q * 18446744073709551616.
Proof.
  unfold s64, s. change (2 ^ (64 - 1)) with 9223372036854775808. change (2 ^ 64) with 18446744073709551616.
  exists (- ((x + 9223372036854775808) / 18446744073709551616)). lia.
Qed.

(* encode: seconds = d quot 10^9, nanos = d rem 10^9: same sign, |nanos| < 10^9 *)
Theorem dur_split_spec d : int64 d ->
  dur_split d = (Z.quot d 1000000000, Z.rem d 1000000000) /\
  Z.abs (Z.rem d 1000000000) < 1000000000 /\ int32 (Z.rem d 1000000000) /\
  (0 <= d -> 0 <= Z.quot d 1000000000 /\ 0 <= Z.rem d 1000000000) /\
  (d <= 0 -> Z.quot d 1000000000 <= 0 /\ Z.rem d 1000000000 <= 0).
Proof.
  intros Hd. unfold dur_split, second, int64, int32 in *.
  assert (E : d - Z.quot d 1000000000 * 1000000000 = Z.rem d 1000000000) by lia.
  rewrite E. split; [|lia].
  f_equal. apply s32_id. unfold int32. lia.
Qed.

(* decode: the reference rule. The product test detects every overflow of seconds*10^9. *)
Definition fits (sec nanos : Z) : Prop := int64 (sec * 1000000000) /\ int64 (sec * 1000000000 + nanos).

Theorem dur_join_fits sec nanos : int64 sec -> int32 nanos -> fits sec nanos ->
  dur_join sec nanos = sec * 1000000000 + nanos.
Proof.
  intros Hs Hn [F1 F2]. unfold dur_join, second.
  rewrite (s64_id (sec * 1000000000)) by exact F1.
  replace (Z.quot (sec * 1000000000) 1000000000 =? sec) with true by (symmetry; apply Z.eqb_eq; unfold int64 in *; lia).
  cbn [negb orb]. rewrite (s64_id _ F2).
  unfold int64, int32 in *.
  destruct (Z.ltb_spec sec 0); destruct (Z.ltb_spec nanos 0); destruct (Z.ltb_spec 0 sec); destruct (Z.ltb_spec 0 nanos);
    destruct (Z.ltb_spec 0 (sec * 1000000000 + nanos)); destruct (Z.ltb_spec (sec * 1000000000 + nanos) 0);
    cbn [andb orb]; try reflexivity; lia.
Qed.

Theorem dur_join_saturates sec nanos : int64 sec -> int32 nanos -> ~ fits sec nanos ->
  dur_join sec nanos = if sec <? 0 then MinInt64 else MaxInt64.
Proof.
  intros Hs Hn NF. unfold dur_join, second, MinInt64, MaxInt64.
  change (- 2 ^ 63) with (-9223372036854775808). change (2 ^ 63 - 1) with 9223372036854775807.
  destruct (s64_cong (sec * 1000000000)) as [q Hq]. pose proof (s64_range (sec * 1000000000)) as R.
  set (z0 := s64 (sec * 1000000000)) in *.
  destruct (s64_cong (z0 + nanos)) as [q2 Hq2]. pose proof (s64_range (z0 + nanos)) as R2.
  set (z := s64 (z0 + nanos)) in *.
  unfold fits, int64, int32 in *.
  destruct (Z.eqb_spec (Z.quot z0 1000000000) sec) as [Eq|Ne]; cbn [negb orb].
  - (* the product did not overflow: z0 = sec*10^9, so the sum must have *)
    assert (q = 0) by lia. subst q. assert (Hz0 : z0 = sec * 1000000000) by lia.
    assert (Hov : ~ (-9223372036854775808 <= sec * 1000000000 + nanos < 9223372036854775808)) by lia.
    destruct (Z.ltb_spec sec 0); destruct (Z.ltb_spec nanos 0); destruct (Z.ltb_spec 0 sec); destruct (Z.ltb_spec 0 nanos);
      destruct (Z.ltb_spec 0 z); destruct (Z.ltb_spec z 0); cbn [andb orb]; try reflexivity; try lia.
  - destruct (Z.ltb_spec sec 0); [reflexivity|].
    destruct (Z.ltb_spec 0 sec); [reflexivity|].
    exfalso. assert (sec = 0) by lia. subst sec. apply Ne. unfold z0. reflexivity.
Qed.

(* round trip: every time.Duration *)
Theorem dur_roundtrip d : int64 d -> let '(s, n) := dur_split d in dur_join s n = d.
Proof.
  intros Hd. destruct (dur_split_spec d Hd) as [E [A [N [P M]]]]. rewrite E.
  rewrite dur_join_fits.
  - unfold int64 in *. lia.
  - unfold int64 in *. lia.
  - exact N.
  - unfold fits, int64 in *. lia.
Qed.

(* Timestamp: time.Unix(sec, nanos).UTC() is sec + floor(nanos / 10^9), nanos mod 10^9 *)
Theorem time_unix_norm sec nanos : int64 sec -> int32 nanos -> int64 (sec + nanos / 1000000000) ->
  time_unix sec nanos = (sec + nanos / 1000000000, nanos mod 1000000000).
Proof.
  intros Hs Hn Hf. unfold time_unix, second. unfold int64, int32 in *.
  destruct (Z.ltb_spec nanos 0) as [Hneg|Hpos]; cbn [orb].
  - set (n := Z.quot nanos 1000000000).
    assert (Hn1 : int64 (sec + n)) by (unfold int64, n; lia).
    rewrite (s64_id _ Hn1).
    destruct (Z.ltb_spec (nanos - n * 1000000000) 0).
    + assert (Hn2 : int64 (sec + n - 1)) by (unfold int64, n in *; lia).
      rewrite (s64_id _ Hn2). unfold n. f_equal; lia.
    + unfold n. f_equal; lia.
  - destruct (Z.leb_spec 1000000000 nanos); cbn [orb].
    + set (n := Z.quot nanos 1000000000).
      assert (Hn1 : int64 (sec + n)) by (unfold int64, n; lia).
      rewrite (s64_id _ Hn1).
      destruct (Z.ltb_spec (nanos - n * 1000000000) 0); [unfold n in *; lia|].
      unfold n. f_equal; lia.
    + f_equal; lia.
Qed.

(* round trip of an instant: Unix() and Nanosecond() of a time.Time *)
Theorem time_roundtrip sec nsec : int64 sec -> 0 <= nsec < 1000000000 ->
  time_unix sec (s32 nsec) = (sec, nsec).
Proof.
  intros Hs Hn. rewrite s32_id by (unfold int32; lia).
  unfold time_unix, second.
  replace (nsec <? 0) with false by (symmetry; apply Z.ltb_ge; lia).
  replace (1000000000 <=? nsec) with false by (symmetry; apply Z.leb_gt; lia). reflexivity.
Qed.
