(* C09 at full strength: decoding a concatenation = decoding the pieces one after another,
   for the reference decoder and (through T_dec) for Unmarshal of generated code. *)
From Coq Require Import List ZArith Lia Bool Arith.
From Pico Require Import Base.Res Base.ListX Base.Mach Wire.Wire Schema.Types Schema.Scalar Schema.Gen Schema.Conv Schema.Interp Ref.Ref
  Dec.Dec Dec.SafetyProofs Dec.TokenBridge Dec.TokenApp Dec.StreamLoop Schema.TDec.
Import ListNotations.
Open Scope Z_scope.

Lemma ref_decode_unfold g s idx b x : ref_decode (S g) s idx b x =
  match nth_error s idx, tokens b with
  | Some m, Some ts => fold_opt (apply_token s (ref_decode g s) m) ts (Some x)
  | _, _ => None
  end.
Proof. reflexivity. Qed.

(* the reference decoder on a concatenation *)
Theorem ref_decode_app g s idx a b x y : bytes_ok a -> ref_decode g s idx a x = Some y ->
  ref_decode g s idx (a ++ b) x = ref_decode g s idx b y.
Proof.
  intros Ha H. destruct g as [|g]; [discriminate H|]. rewrite !ref_decode_unfold in *.
  destruct (nth_error s idx) as [m|]; [|discriminate H].
  destruct (tokens a) as [ta|] eqn:Eta; [|discriminate H].
  rewrite (tokens_app a b ta Ha Eta). destruct (tokens b) as [tb|]; [|reflexivity].
  rewrite fold_opt_app, H. reflexivity.
Qed.

(* more nesting budget never changes a successful result *)
Section Mono.
Variable s : schema.
Variables rec1 rec2 : nat -> bytes -> msgv -> option msgv.
Hypothesis Hrec : forall idx b x y, rec1 idx b x = Some y -> rec2 idx b x = Some y.

Lemma apply_known_mono m slot f t fs fs' : apply_known s rec1 m slot f t fs = Some fs' -> apply_known s rec2 m slot f t fs = Some fs'.
Proof.
  unfold apply_known. intros H.
  destruct (f_custom f); try exact H.
  destruct (fty f) as [k| |idx|kk vk|]; try exact H.
  destruct (t_pay t) as [pv|pv|pv|b|]; try exact H.
  destruct (i_repeated (field_info s f)).
  - destruct (rec1 idx b (zero_of s idx)) as [x|] eqn:E; [|discriminate H]. rewrite (Hrec _ _ _ _ E). exact H.
  - destruct (i_pointer (field_info s f)).
    + match type of H with context[rec1 idx b ?v] => destruct (rec1 idx b v) as [x|] eqn:E; [|discriminate H]; rewrite (Hrec _ _ _ _ E) end. exact H.
    + destruct (i_oneof (field_info s f)).
      * match type of H with context[rec1 idx b ?v] => destruct (rec1 idx b v) as [x|] eqn:E; [|discriminate H]; rewrite (Hrec _ _ _ _ E) end. exact H.
      * match type of H with context[rec1 idx b ?v] => destruct (rec1 idx b v) as [x|] eqn:E; [|discriminate H]; rewrite (Hrec _ _ _ _ E) end. exact H.
Qed.
Lemma apply_token_mono m t x y : apply_token s rec1 m t x = Some y -> apply_token s rec2 m t x = Some y.
Proof.
  unfold apply_token. intros H. destruct (find_field m (t_num t)) as [[slot f]|]; [|exact H].
  destruct (apply_known s rec1 m slot f t (fst x)) as [fs|] eqn:E; [|discriminate H]. rewrite (apply_known_mono _ _ _ _ _ _ E). exact H.
Qed.
Lemma fold_token_mono m ts : forall o y, fold_opt (apply_token s rec1 m) ts o = Some y -> fold_opt (apply_token s rec2 m) ts o = Some y.
Proof.
  induction ts as [|t ts IH]; intros o y H; [exact H|]. destruct o as [x|]; [|rewrite fold_opt_none in H; discriminate H].
  rewrite fold_opt_cons in *. destruct (apply_token s rec1 m t x) as [x1|] eqn:E; [|rewrite fold_opt_none in H; discriminate H].
  rewrite (apply_token_mono _ _ _ _ E). apply IH. exact H.
Qed.
End Mono.

Lemma ref_decode_mono s : forall g idx b x y, ref_decode g s idx b x = Some y -> ref_decode (S g) s idx b x = Some y.
Proof.
  induction g as [|g IH]; intros idx b x y H; [discriminate H|]. rewrite ref_decode_unfold in *.
  destruct (nth_error s idx) as [m|]; [|discriminate H]. destruct (tokens b) as [ts|]; [|discriminate H].
  apply (fold_token_mono s (ref_decode g s) (ref_decode (S g) s) IH m ts _ _ H).
Qed.
Lemma ref_decode_mono_le s g1 g2 idx b x y : (g1 <= g2)%nat -> ref_decode g1 s idx b x = Some y -> ref_decode g2 s idx b x = Some y.
Proof. intros Hle. induction Hle as [|g2 Hle IH]; intros H; [exact H|]. apply ref_decode_mono, IH, H. Qed.

(* C09: Unmarshal of a concatenation whose pieces decode one after another gives exactly the sequential result *)
Theorem unmarshal_concat s progs idx a b t0 t1 t2 :
  gen_all s = GOk progs -> tdec_applies_at s idx = true -> bytes_ok a -> bytes_ok b ->
  pico_unmarshal progs idx a t0 = (None, t1) -> pico_unmarshal progs idx b t1 = (None, t2) ->
  pico_unmarshal progs idx (a ++ b) t0 = (None, t2).
Proof.
  intros Hgen Happ Ha Hb H1 H2.
  pose proof (T_dec_at s progs idx a t0 Hgen Happ Ha) as Ta. pose proof (T_dec_at s progs idx b t1 Hgen Happ Hb) as Tb.
  pose proof (T_dec_at s progs idx (a ++ b) t0 Hgen Happ (bytes_ok_app a b Ha Hb)) as Tab. cbv zeta in *.
  rewrite H1 in Ta. rewrite H2 in Tb. cbn [fst snd] in *.
  destruct (ref_decode (S (S (S (length a)))) s idx a t0) as [ya|] eqn:Ea; [|congruence]. destruct Ta as [_ <-].
  destruct (ref_decode (S (S (S (length b)))) s idx b t1) as [yb|] eqn:Eb; [|congruence]. destruct Tb as [_ <-].
  set (G := S (S (S (length (a ++ b))))) in *.
  assert (Ea' : ref_decode G s idx a t0 = Some t1) by (apply (ref_decode_mono_le s (S (S (S (length a)))) G); [unfold G; rewrite app_length; lia|exact Ea]).
  assert (Eb' : ref_decode G s idx b t1 = Some t2) by (apply (ref_decode_mono_le s (S (S (S (length b)))) G); [unfold G; rewrite app_length; lia|exact Eb]).
  rewrite (ref_decode_app G s idx a b t0 t1 Ha Ea'), Eb' in Tab. destruct Tab as [E1 E2].
  destruct (pico_unmarshal progs idx (a ++ b) t0) as [e m]. cbn [fst snd] in *. subst. reflexivity.
Qed.
