(* C13, encoder half for PROGRAMS of Encoder calls: what a hand-written custom type can do with the Encoder API - any
   sequence of typed writers, RepeatedEnum, UnrecognizedFields and (nested, to any depth) Message / AlwaysMessage /
   PresentMessage / AlwaysAnyBytes with arbitrary callbacks, including callbacks that write something and then report
   absence - produces exactly the concatenation of the reference encodings, and a Message whose callback reports absence
   leaves no trace. *)
From Coq Require Import List ZArith Lia Bool Arith.
From Pico Require Import Base.Res Base.Mach Wire.Wire Schema.Types Schema.Scalar Ref.Ref Schema.ScalarProofs Enc.Enc Enc.EncProofs
  Schema.Gen Schema.Interp Schema.EncSpec Schema.EncProgProofs.
Import ListNotations.
Open Scope Z_scope.

Inductive ecall :=
| CScalar (k : kind) (always rep : bool) (field : Z) (vs : list val)   (* [Always][Repeated]K(field, &v); single: the first value *)
| CRepEnum (field : Z) (vs : list Z)                                      (* RepeatedEnum *)
| CMessage (field : Z) (body : list ecall) (ok : bool)                    (* Message(field, func() bool { body; return ok }) *)
| CAlwaysMessage (field : Z) (body : list ecall) (ok : bool)
| CPresentMessage (field : Z) (body : list ecall) (ok : bool)
| CAlwaysAnyBytes (field : Z) (body : list ecall)
| CUnrec (bs : bytes).                                                    (* UnrecognizedFields(bs) *)

Definition first_val (vs : list val) : val := match vs with v :: _ => v | [] => VInt 0 end.

(* fuel bounds the nesting depth of the program *)
Fixpoint run_call (fuel : nat) (c : ecall) (buf : bytes) : result bytes :=
  match fuel with
  | O => Panic
  | S f =>
      let body (cs : list ecall) (b : bytes) := rfold (run_call f) cs b in
      match c with
      | CScalar k always rep field vs =>
          if rep then enc_repeated k always field vs buf else Ok (enc_single k always field (first_val vs) buf)
      | CRepEnum field vs => enc_repeated_enum field vs buf
      | CMessage field cs ok => enc_message field (fun b => let! b' := body cs b in Ok (b', ok)) buf
      | CAlwaysMessage field cs ok => enc_always_message field (fun b => let! b' := body cs b in Ok (b', ok)) buf
      | CPresentMessage field cs ok => enc_present_message field (fun b => let! b' := body cs b in Ok (b', ok)) buf
      | CAlwaysAnyBytes field cs => always_any_bytes field (fun b => body cs b) buf
      | CUnrec bs => Ok (buf ++ bs)
      end
  end.
Definition run_calls (fuel : nat) (cs : list ecall) (buf : bytes) : result bytes := rfold (run_call fuel) cs buf.

(* the reference bytes of a program *)
Fixpoint spec_call (fuel : nat) (c : ecall) : bytes :=
  match fuel with
  | O => []
  | S f =>
      let body (cs : list ecall) := flat_map (spec_call f) cs in
      match c with
      | CScalar k always rep field vs => if rep then sp_repeated k always field vs else sp_scalar k always field (first_val vs)
      | CRepEnum field vs => match vs with [] => [] | _ => spec_ld field (flat_map (fun z => spec_varint (u64 z)) vs) end
      | CMessage field cs ok => if ok then spec_ld field (body cs) else []        (* absence: no trace, whatever was written *)
      | CAlwaysMessage field cs _ => spec_ld field (body cs)
      | CPresentMessage field cs _ => match body cs with [] => [] | p => spec_ld field p end
      | CAlwaysAnyBytes field cs => spec_ld field (body cs)
      | CUnrec bs => bs
      end
  end.

(* well-typed programs: valid field numbers, values in the range of their Go type, payloads shorter than 2^63 *)
Fixpoint call_ok (fuel : nat) (c : ecall) : bool :=
  match fuel with
  | O => false
  | S f =>
      let body (cs : list ecall) := forallb (call_ok f) cs && lenb (flat_map (spec_call f) cs) in
      match c with
      | CScalar k always rep field vs =>
          valid_number field &&
          (if rep then forallb (scalar_ok k) vs && lenb (flat_map (spec_payload k) vs) else scalar_ok k (first_val vs))
      | CRepEnum field vs => valid_number field && lenb (flat_map (fun z => spec_varint (u64 z)) vs)
      | CMessage field cs _ | CAlwaysMessage field cs _ | CPresentMessage field cs _ | CAlwaysAnyBytes field cs =>
          valid_number field && body cs
      | CUnrec _ => true
      end
  end.

Theorem run_call_spec : forall fuel c buf, call_ok fuel c = true -> run_call fuel c buf = Ok (buf ++ spec_call fuel c).
Proof.
  induction fuel as [|f IH]; intros c buf Hok; [discriminate Hok|].
  assert (Hbody : forall cs b, forallb (call_ok f) cs = true -> rfold (run_call f) cs b = Ok (b ++ flat_map (spec_call f) cs)).
  { intros cs b Hall. apply rfold_app. intros x b0 Hx. apply IH. exact (forallb_In _ _ _ Hall Hx). }
  destruct c as [k always rep field vs|field vs|field cs ok|field cs ok|field cs ok|field cs|bs]; cbn [run_call spec_call call_ok] in *.
  - apply andb_true_iff in Hok. destruct Hok as [Hn Hv]. destruct rep.
    + apply andb_true_iff in Hv. destruct Hv as [Hall Hlen]. apply enc_repeated_sp; assumption.
    + f_equal. apply enc_single_sp; assumption.
  - apply andb_true_iff in Hok. destruct Hok as [Hn Hl]. apply enc_repeated_enum_sp; assumption.
  - apply andb_true_iff in Hok. destruct Hok as [Hn Hb]. apply andb_true_iff in Hb. destruct Hb as [Hall Hl].
    rewrite (enc_message_spec field _ buf (flat_map (spec_call f) cs) ok Hn (lenb_ok _ Hl)).
    + destruct ok; [reflexivity|rewrite app_nil_r; reflexivity].
    + intros b. rewrite (Hbody cs b Hall). reflexivity.
  - apply andb_true_iff in Hok. destruct Hok as [Hn Hb]. apply andb_true_iff in Hb. destruct Hb as [Hall Hl].
    apply (enc_always_message_spec field _ buf (flat_map (spec_call f) cs) ok Hn (lenb_ok _ Hl)).
    intros b. rewrite (Hbody cs b Hall). reflexivity.
  - apply andb_true_iff in Hok. destruct Hok as [Hn Hb]. apply andb_true_iff in Hb. destruct Hb as [Hall Hl].
    rewrite (enc_present_message_spec field _ buf (flat_map (spec_call f) cs) ok Hn (lenb_ok _ Hl)).
    + destruct (flat_map (spec_call f) cs); [rewrite app_nil_r; reflexivity|reflexivity].
    + intros b. rewrite (Hbody cs b Hall). reflexivity.
  - apply andb_true_iff in Hok. destruct Hok as [Hn Hb]. apply andb_true_iff in Hb. destruct Hb as [Hall Hl].
    apply (always_any_bytes_spec field _ buf (flat_map (spec_call f) cs) Hn (lenb_ok _ Hl)).
    intros b. apply (Hbody cs b Hall).
  - reflexivity.
Qed.

Theorem run_calls_spec fuel cs buf : forallb (call_ok fuel) cs = true ->
  run_calls fuel cs buf = Ok (buf ++ flat_map (spec_call fuel) cs).
Proof.
  intros Hall. unfold run_calls. apply rfold_app. intros x b Hx. apply run_call_spec. exact (forallb_In _ _ _ Hall Hx).
Qed.

(* a Message whose callback reports absence leaves no trace, whatever the callback wrote before *)
Corollary absent_message_no_trace fuel field cs buf : call_ok fuel (CMessage field cs false) = true ->
  run_call fuel (CMessage field cs false) buf = Ok buf.
Proof.
  intros H. rewrite (run_call_spec fuel _ buf H). destruct fuel; [discriminate H|]. cbn [spec_call]. rewrite app_nil_r. reflexivity.
Qed.
