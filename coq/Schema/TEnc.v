(* T_enc: for every schema, the bytes specified for the generated Encode program of a message
   (sp_msg over gen_encode) are the reference encoding ref_encode of the value: ascending field
   numbers, packed repeated scalars, default omission, presence, unknown fields last. Together
   with enc_msg_spec: pico_marshal (gen s) = ref_encode s on well-typed values. *)
From Coq Require Import List ZArith Lia Bool Arith.
From Pico Require Import Base.Res Base.ListX Base.Mach Wire.Wire Schema.Types Schema.Scalar Schema.Gen Schema.Conv
  Schema.Interp Ref.Ref Schema.EncSpec Schema.EncProgProofs Schema.ConvProofs Schema.ScalarProofs.
Import ListNotations.
Open Scope Z_scope.

(* a oneof member is never repeated and never a map (protobuf itself forbids both) *)
Definition wf_fdesc (f : fdesc) : bool :=
  match foneof f with
  | Some _ => match flabel f, fty f with
              | LRepeated, _ => false
              | _, TMap _ _ => false
              | _, TMapOther => false
              | _, _ => true
              end
  | None => true
  end.

Section Field.
Variable s : schema.
Variable R : nat -> option msgv -> bytes * bool.
Variable sub_ok : nat -> option msgv -> bool.
Variable rec' : nat -> list val -> bytes -> bytes.
Hypothesis R_none : forall idx, R idx None = ([], false).
Hypothesis R_some : forall idx fs u, sub_ok idx (Some (fs, u)) = true -> R idx (Some (fs, u)) = (rec' idx fs u, true).

Lemma sp_sec_nanos_ref sec nanos : sp_sec_nanos sec nanos = spec_sec_nanos sec nanos.
Proof.
  unfold sp_sec_nanos, spec_sec_nanos, sp_scalar. cbn [negb andb spec_default as_int]. reflexivity.
Qed.

Lemma cast_elem_ref c num v : cast_elem_ok c v = true ->
  match c with CastMap _ _ => True | _ => sp_cast_elem c num v = ref_cast_elem num v end.
Proof.
  intros Hok. destruct c as [| |kk vk]; [| |exact I]; destruct v as [z|bb|o|l|o|fs u|l|sec nsec|d]; try discriminate Hok;
    cbn [sp_cast_elem ref_cast_elem cast_elem_ok] in *.
  - apply andb_true_iff in Hok. destruct Hok as [Hok H2]. apply andb_true_iff in Hok. destruct Hok as [_ H1].
    apply Z.leb_le in H1. apply Z.ltb_lt in H2.
    destruct (time_is_zero sec nsec); [reflexivity|]. rewrite sp_sec_nanos_ref.
    rewrite s32_id by (unfold int32; lia). reflexivity.
  - apply in_sb_spec in Hok. change (2 ^ (64 - 1)) with 9223372036854775808 in Hok.
    destruct (dur_split_spec d) as [E _]; [unfold int64; lia|]. rewrite E. rewrite sp_sec_nanos_ref. reflexivity.
Qed.

Ltac inj := match goal with H : GOk _ = GOk _ |- _ => injection H as <- | H : GError _ = GOk _ |- _ => discriminate H end.

(* --- one lemma per slot shape --- *)
Lemma sh_scalar_plain k num v : scalar_ok k v = true -> sp_scalar k false num v = ref_scalar_slot k num v.
Proof. destruct v; destruct k; try discriminate; intros _; reflexivity. Qed.

Lemma sh_scalar_ptr k num v :
  match v with VOpt (Some x) => scalar_ok k x | VOpt None => true | _ => false end = true ->
  match v with VOpt (Some x) => sp_scalar k true num x | _ => [] end = ref_scalar_slot k num v.
Proof. destruct v as [| |[x|]| | | | | |]; try discriminate; intros _; reflexivity. Qed.

Lemma sh_scalar_rep k num v :
  match v with VList l => forallb (scalar_ok k) l && lenb (flat_map (spec_payload k) l) | _ => false end = true ->
  sp_repeated k false num (as_list v) = ref_scalar_slot k num v.
Proof.
  destruct v as [| | |l| | | | |]; try discriminate; intros _. cbn [as_list ref_scalar_slot]. unfold sp_repeated. cbn [negb andb].
  destruct l as [|x l]; cbn [length Nat.eqb]; [destruct (is_bytes_kind k); reflexivity|reflexivity].
Qed.

Lemma sh_oneof_scalar k num v :
  match v with VOpt (Some x) => valid_number num && scalar_ok k x | VOpt None => true | _ => false end = true ->
  match v with VOpt (Some x) => sp_scalar k true num x | _ => [] end = ref_scalar_slot k num v.
Proof. destruct v as [| |[x|]| | | | | |]; try discriminate; intros _; reflexivity. Qed.

Lemma sh_repenum num v :
  match v with VList l => forallb (scalar_ok KInt32) l && lenb (flat_map (fun x => spec_varint (u64 (as_int x))) l) | _ => false end = true ->
  match as_list v with [] => [] | vs => spec_ld num (flat_map (fun x => spec_varint (u64 (as_int x))) vs) end = ref_scalar_slot KInt32 num v.
Proof.
  destruct v as [| | |l| | | | |]; try discriminate; intros _. cbn [as_list ref_scalar_slot is_bytes_kind].
  destruct l as [|x l]; [reflexivity|]. f_equal.
Qed.

Lemma sh_msg_ptr num idx v : sub_ok idx (opt_of_msg v) = true -> match v with VMsg _ => true | _ => false end = true ->
  (let r := R idx (opt_of_msg v) in if snd r then spec_ld num (fst r) else []) = ref_msg_slot rec' num idx v.
Proof.
  destruct v as [| | | |[[fs1 u1]|]| | | |]; try discriminate; intros Hs _; cbn [opt_of_msg ref_msg_slot] in *.
  - rewrite R_some by exact Hs. reflexivity.
  - rewrite R_none. reflexivity.
Qed.

Lemma sh_msg_present num idx v : sub_ok idx (opt_of_msg v) = true -> match v with VEmb _ _ => true | _ => false end = true ->
  match fst (R idx (opt_of_msg v)) with [] => [] | p => spec_ld num p end = ref_msg_slot rec' num idx v.
Proof.
  destruct v as [| | | | |fs1 u1| | |]; try discriminate; intros Hs _; cbn [opt_of_msg ref_msg_slot] in *.
  rewrite R_some by exact Hs. cbn [fst]. destruct (rec' idx fs1 u1); reflexivity.
Qed.

Lemma sh_cast_plain c num v : match c with CastMap _ _ => False | _ => True end -> cast_elem_ok c v = true ->
  sp_cast_elem c num v = ref_cast_slot num v.
Proof.
  intros Hc Hok. pose proof (cast_elem_ref c num v Hok) as E. destruct c; try contradiction; rewrite E;
    destruct v; try discriminate Hok; reflexivity.
Qed.

Lemma sh_cast_ptr c num v : match c with CastMap _ _ => False | _ => True end ->
  match v with VOpt (Some y) => cast_elem_ok c y | VOpt None => true | _ => false end = true ->
  match v with VOpt (Some y) => sp_cast_elem c num y | _ => [] end = ref_cast_slot num v.
Proof.
  intros Hc. destruct v as [| |[y|]| | | | | |]; try discriminate; intros Hok; [|reflexivity].
  cbn [ref_cast_slot]. pose proof (cast_elem_ref c num y Hok) as E. destruct c; try contradiction; exact E.
Qed.

Lemma sh_cast_rep c (ptr : bool) num v : match c with CastMap _ _ => False | _ => True end ->
  match v with
  | VList l => forallb (fun x => if ptr then match x with VOpt (Some y) => cast_elem_ok c y | VOpt None => true | _ => false end else cast_elem_ok c x) l
  | _ => false end = true ->
  flat_map (fun x => if ptr then match x with VOpt (Some y) => sp_cast_elem c num y | _ => [] end else sp_cast_elem c num x) (as_list v) = ref_cast_slot num v.
Proof.
  intros Hc. destruct v as [| | |l| | | | |]; try discriminate; intros H. cbn [as_list ref_cast_slot].
  apply flat_map_ext_in. intros x Hx. pose proof (forallb_In _ _ _ H Hx) as Hs. destruct ptr.
  - destruct x as [| |[y|]| | | | | |]; try discriminate Hs; [|reflexivity].
    pose proof (cast_elem_ref c num y Hs) as E. destruct c; try contradiction; exact E.
  - pose proof (cast_elem_ref c num x Hs) as E. destruct c; try contradiction; rewrite E;
      destruct x; try discriminate Hs; reflexivity.
Qed.

Lemma sh_map kk vk num v : sp_cast_elem (CastMap kk vk) num v = ref_map_slot kk vk num v.
Proof. destruct v; reflexivity. Qed.

Lemma field_enc_ref slot f op fs un : wf_fdesc f = true -> gen_field_encode s slot f = GOk op ->
  op_ok R sub_ok fs op = true -> sp_op R fs un op = ref_slot rec' f (slot_get fs slot).
Proof.
  destruct f as [num ty lab one ap cust]. unfold wf_fdesc, gen_field_encode, field_info.
  cbn [fnum fty flabel foneof f_always_present f_custom].
  intros Hwf Hgen Hok.
  destruct cust; destruct ty as [k| |idx|kk vk|]; destruct lab; destruct one as [o|]; destruct ap;
    try (destruct (target_always_present s (TMsg idx)));
    try discriminate Hwf; cbn in Hgen; try (destruct (is_bytes_kind k) eqn:Ebk; cbn in Hgen); try inj; try discriminate Hgen.
  all: cbn [sp_op ref_slot op_ok fnum fty flabel foneof f_always_present f_custom kind_of_ftype] in *.
  all: try reflexivity.
  all: try discriminate Hok.
  all: repeat match goal with H : (_ && _) = true |- _ => apply andb_true_iff in H; destruct H end.
  all: try (destruct (slot_get fs slot); discriminate Hok).
  all: first
    [ apply sh_scalar_plain; assumption
    | apply sh_oneof_scalar; assumption
    | apply sh_scalar_ptr; assumption
    | apply sh_scalar_rep; assumption
    | apply sh_repenum; assumption
    | apply sh_msg_ptr; assumption
    | apply sh_msg_present; assumption
    | apply sh_map
    | apply sh_cast_plain; [exact I|assumption]
    | apply sh_cast_ptr; [exact I|assumption]
    | apply (sh_cast_rep _ true); [exact I|assumption]
    | apply (sh_cast_rep _ false); [exact I|assumption]
    | idtac ].
  all: destruct (slot_get fs slot) as [z|bb|[x|]|l|[[fs1 u1]|]|fs1 u1|l|sec nsec|d];
       cbn [as_list ref_cast_slot ref_scalar_slot ref_msg_slot opt_of_msg fst snd] in *; try discriminate; try reflexivity.
  all: repeat match goal with H : (_ && _) = true |- _ => apply andb_true_iff in H; destruct H end.
  all: rewrite ?R_none; try (rewrite R_some by assumption); cbn [fst snd]; try reflexivity.
  all: try (match goal with H : cast_elem_ok ?c ?x = true |- sp_cast_elem ?c _ ?x = _ => exact (cast_elem_ref c num x H) end).
  all: try (match goal with H : match ?x0 with _ => _ end = true |- match ?x0 with _ => _ end = match ?x0 with _ => _ end =>
              destruct x0 as [| | | | |fs2 u2| | |]; try discriminate H;
              repeat match goal with H' : (_ && _) = true |- _ => apply andb_true_iff in H'; destruct H' end;
              rewrite R_some by assumption; reflexivity end).
  all: apply flat_map_ext_in; intros e He.
  all: repeat match goal with H : forallb _ _ = true |- _ => apply (fun H' => forallb_In _ _ e H' He) in H end.
  all: cbn beta in *.
  all: repeat match goal with H : (_ && _) = true |- _ => apply andb_true_iff in H; destruct H end.
  all: try (destruct e as [| |[y|]| |[[fs2 u2]|]|fs2 u2| | |]; try discriminate; cbn [opt_of_msg ref_msg_elem] in *; rewrite ?R_none; try (rewrite R_some by assumption); reflexivity).
  all: try (match goal with H : cast_elem_ok ?c ?e0 = true |- _ = match ?e0 with _ => _ end =>
              pose proof (cast_elem_ref c num e0 H) as E; cbn beta iota in E; rewrite E; destruct e0; try discriminate H; reflexivity end).
  all: try (match goal with |- match ?e0 with _ => _ end = _ =>
              destruct e0 as [| |[y|]| | | | | |]; try discriminate; try reflexivity;
              match goal with H : cast_elem_ok ?c y = true |- _ => exact (cast_elem_ref c num y H) end end).
Qed.

End Field.


(* ---- from fields to messages ---------------------------------------------------------- *)
Lemma gmap_Forall2 {A B} (f : A -> gres B) l : forall ys, gmap f l = GOk ys -> Forall2 (fun x y => f x = GOk y) l ys.
Proof.
  induction l as [|x l IH]; intros ys H; cbn [gmap] in H.
  - injection H as <-. constructor.
  - destruct (f x) as [y|r] eqn:E; [|discriminate H].
    destruct (gmap f l) as [ys'|r] eqn:E2; [|discriminate H]. injection H as <-.
    constructor; [exact E|apply IH; reflexivity].
Qed.

Lemma Forall2_nth {A B} (P : A -> B -> Prop) l1 l2 : Forall2 P l1 l2 -> forall i y, nth_error l2 i = Some y ->
  exists x, nth_error l1 i = Some x /\ P x y.
Proof.
  induction 1 as [|x y l1 l2 Hxy H IH]; intros i y0 Hy; [destruct i; discriminate Hy|].
  destruct i as [|i]; cbn in *.
  - injection Hy as <-. exists x. split; [reflexivity|exact Hxy].
  - apply IH. exact Hy.
Qed.

Definition wf_schema_enc (s : schema) : bool := forallb (fun m => forallb wf_fdesc (mfields m)) s.

Lemma flat_map_fields s R sub_ok rec' fs un :
  (forall idx, R idx None = ([], false)) ->
  (forall idx fs u, sub_ok idx (Some (fs, u)) = true -> R idx (Some (fs, u)) = (rec' idx fs u, true)) ->
  forall (l : list (nat * fdesc)) ops,
  Forall2 (fun p op => gen_field_encode s (fst p) (snd p) = GOk op) l ops ->
  (forall p, In p l -> wf_fdesc (snd p) = true) ->
  forallb (op_ok R sub_ok fs) ops = true ->
  flat_map (sp_op R fs un) ops = flat_map (fun p => ref_slot rec' (snd p) (nth (fst p) fs (VInt 0))) l.
Proof.
  intros Hn Hs l ops H. induction H as [|p op l ops Hp H IH]; intros Hwf Hok; [reflexivity|].
  cbn [flat_map forallb] in *. apply andb_true_iff in Hok. destruct Hok as [Ho Hos].
  rewrite (field_enc_ref s R sub_ok rec' Hn Hs (fst p) (snd p) op fs un); [|apply Hwf; left; reflexivity|exact Hp|exact Ho].
  rewrite IH; [reflexivity|intros q Hq; apply Hwf; right; exact Hq|exact Hos].
Qed.

Lemma sort_by_num_In l x : In x (sort_by_num l) -> In x l.
Proof.
  unfold sort_by_num. induction l as [|y l IH]; cbn [fold_right]; [auto|].
  assert (G : forall (a : nat * fdesc) t, In x (insert_by_num a t) -> x = a \/ In x t).
  { intros a t. induction t as [|b t IHt]; cbn [insert_by_num]; [intros [<-|[]]; left; reflexivity|].
    destruct (fnum (snd a) <? fnum (snd b)); cbn [In]; [intros [<-|H]; [left; reflexivity|right; exact H]|].
    intros [<-|H]; [right; left; reflexivity|]. destruct (IHt H) as [->|H']; [left; reflexivity|right; right; exact H']. }
  intros H. destruct (G _ _ H) as [->|H']; [left; reflexivity|right; apply IH, H'].
Qed.

Lemma number_from_In {A} (l : list A) : forall n p, In p (number_from n l) -> In (snd p) l.
Proof. induction l as [|x l IH]; intros n p H; cbn in *; [contradiction|]. destruct H as [<-|H]; [left; reflexivity|right; apply (IH _ _ H)]. Qed.

(* the specified bytes of the generated program = the reference encoding *)
Theorem T_enc_spec : forall fuel s progs, gen_all s = GOk progs -> wf_schema_enc s = true ->
  forall idx fs un, msg_ok fuel progs idx (Some (fs, un)) = true ->
  sp_msg fuel progs idx (Some (fs, un)) = (ref_encode fuel s idx fs un, true).
Proof.
  induction fuel as [|f IH]; intros s progs Hgen Hwf idx fs un Hok; [discriminate Hok|].
  cbn [sp_msg ref_encode msg_ok] in *.
  destruct (nth_error progs idx) as [p|] eqn:Ep; [|discriminate Hok].
  unfold gen_all in Hgen. pose proof (gmap_Forall2 _ _ _ Hgen) as F2.
  destruct (Forall2_nth _ _ _ F2 idx p Ep) as [m [Em Hp]]. rewrite Em.
  unfold gen_prog in Hp. destruct (gen_encode s m) as [e|r] eqn:Ee; [|discriminate Hp].
  destruct (gen_decode s m) as [d|r] eqn:Ed; [|discriminate Hp]. injection Hp as <-. cbn [p_enc] in *.
  unfold gen_encode in Ee.
  destruct (gmap (fun p => gen_field_encode s (fst p) (snd p)) (sort_by_num (number_from 0 (mfields m)))) as [ops|r] eqn:Eo; [|discriminate Ee].
  injection Ee as <-. f_equal.
  assert (Hwfm : forall q, In q (sort_by_num (number_from 0 (mfields m))) -> wf_fdesc (snd q) = true).
  { intros q Hq. apply sort_by_num_In in Hq. apply number_from_In in Hq.
    unfold wf_schema_enc in Hwf. rewrite forallb_forall in Hwf. specialize (Hwf m (nth_error_In _ _ Em)).
    rewrite forallb_forall in Hwf. apply Hwf, Hq. }
  assert (Hrn : forall i, sp_msg f progs i None = ([], false)) by (intros i; destruct f; reflexivity).
  assert (Hrs : forall i fs0 u0, msg_ok f progs i (Some (fs0, u0)) = true -> sp_msg f progs i (Some (fs0, u0)) = (ref_encode f s i fs0 u0, true)).
  { intros i fs0 u0 H0. apply IH; [unfold gen_all; exact Hgen|exact Hwf|exact H0]. }
  pose proof (gmap_Forall2 _ _ _ Eo) as F.
  destruct (m_capture m).
  - rewrite flat_map_app. rewrite forallb_app in Hok. apply andb_true_iff in Hok. destruct Hok as [Hok _].
    rewrite (flat_map_fields s (sp_msg f progs) (msg_ok f progs) (ref_encode f s) fs un Hrn Hrs _ _ F Hwfm Hok).
    cbn [flat_map sp_op]. rewrite app_nil_r. reflexivity.
  - rewrite (flat_map_fields s (sp_msg f progs) (msg_ok f progs) (ref_encode f s) fs un Hrn Hrs _ _ F Hwfm Hok).
    rewrite app_nil_r. reflexivity.
Qed.

(* T_enc: Marshal of the generated code = the reference encoder, for every schema in the
   feature set and every well-typed value, at any depth and size; never a panic. *)
Theorem T_enc : forall fuel s progs idx fs un,
  gen_all s = GOk progs -> wf_schema_enc s = true -> msg_ok fuel progs idx (Some (fs, un)) = true ->
  pico_marshal fuel progs idx (fs, un) = Ok (ref_encode fuel s idx fs un).
Proof.
  intros fuel s progs idx fs un Hgen Hwf Hok.
  rewrite (pico_marshal_spec fuel progs idx (fs, un) Hok). f_equal.
  exact (f_equal fst (T_enc_spec fuel s progs Hgen Hwf idx fs un Hok)).
Qed.
