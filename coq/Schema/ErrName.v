(* C19, whole messages: which field number a decoding error carries.
   An error of class "expected wire type" / "unable to parse" is raised only by a reader, with the number the reader was called
   for - and a reader acts only when that number is the pending field, i.e. the number in the tag of the offending record.
   Hence, for the Decode method of ANY program list and ANY input, the number in such an error is a field number declared in
   the schema (at some nesting level), or the key/value (seconds/nanos) sub-field 1/2 of a map entry (Timestamp, Duration),
   or - only when a message captures unrecognized fields - the own number of an unknown field whose value cannot be parsed.
   Cursor errors (advance outside buffer, bad tag, invalid field number), custom failures and stack exhaustion carry 0. *)
From Coq Require Import List ZArith Lia Bool Arith.
From Pico Require Import Base.Res Base.ListX Base.Mach Wire.Wire Schema.Types Schema.Scalar Schema.Gen Schema.Conv Schema.Interp
  Dec.Dec.
Import ListNotations.
Open Scope Z_scope.

Definition field_class (c : ecls) : Prop := c = EWire \/ c = EParse.

Section Named.
Variable A : Z -> Prop.

(* the decoder's error, if it is a field error, names a number in A *)
Definition named (st : dstate) : Prop := forall f c, err st = Some (f, c) -> field_class c -> A f.
Definition named_fn {T} (fn : dstate -> T -> dstate * T) : Prop := forall st t, named st -> named (fst (fn st t)).

Lemma named_fail_field f c st : A f -> named (fail f c st).
Proof. intros Ha f' c' E _. cbn in E. injection E as <- <-. exact Ha. Qed.
Lemma named_fail_other f c st : c <> EWire -> c <> EParse -> named (fail f c st).
Proof. intros H1 H2 f' c' E [Hc|Hc]; cbn in E; injection E as <- <-; contradiction. Qed.
Lemma named_same_err st st' : err st' = err st -> named st -> named st'.
Proof. intros E H f c He. rewrite E in He. exact (H f c He). Qed.

Lemma named_next_field n st : named st -> named (next_field n st).
Proof.
  intros H. unfold next_field.
  destruct ((n <? 0) || negb (has_len_z (buf st) n)); [apply named_fail_other; discriminate|].
  destruct (skipn (Z.to_nat n) (buf st)) as [|y l]; [exact (named_same_err st _ eq_refl H)|].
  destruct (consume_tag (y :: l)) as [[f w] k].
  destruct (k <? 0); [apply named_fail_other; discriminate|].
  destruct (negb (valid_number f)); [apply named_fail_other; discriminate|exact (named_same_err st _ eq_refl H)].
Qed.
Lemma named_push m st : named st -> named (push_state m st).
Proof. intros H. unfold push_state. apply named_next_field. exact (named_same_err st _ eq_refl H). Qed.
Lemma named_pop outer inner : named inner -> named (pop_state outer inner).
Proof. intros H. exact (named_same_err inner _ eq_refl H). Qed.

Lemma loop_named {T} (fn : @body T) : named_fn fn -> forall F, named_fn (Dec.loop F fn).
Proof.
  intros Hfn F. induction F as [|f IH]; intros st t He; [exact He|]. cbn [Dec.loop].
  pose proof (Hfn st t He) as H1. destruct (fn st t) as [st1 t1]. cbn [fst] in H1.
  destruct (negb (valid_number (pf st1))); [exact H1|].
  destruct (same_len (buf st1) (buf st)); apply IH; [apply named_next_field|]; exact H1.
Qed.

Lemma single_named k f st v : A f -> named st -> named (fst (dec_single k f st v)).
Proof.
  intros Ha He. unfold dec_single. destruct (negb (f =? pf st)); [exact He|].
  destruct (negb (pw st =? wire_of k)); [apply named_fail_field, Ha|].
  destruct (dec_payload k (buf st)) as [x n]. destruct (n <? 0); [apply named_fail_field, Ha|apply named_next_field; exact He].
Qed.

Lemma repeated_named k f : A f -> forall fuel st vs, named st -> named (fst (dec_repeated fuel k f st vs)).
Proof.
  intros Ha. induction fuel as [|fuel IH]; intros st vs He; [exact He|]. cbn [dec_repeated].
  destruct (negb (f =? pf st)); [exact He|].
  destruct (is_scalar_wire k && (pw st =? BytesType)).
  - destruct (consume_bytes (buf st)) as [packed n]. destruct (n <? 0); [apply named_fail_field, Ha|].
    destruct (dec_packed (S (length packed)) k packed vs) as [vs' ok]. destruct ok; [|apply named_fail_field, Ha].
    apply IH, named_next_field, He.
  - destruct (pw st =? wire_of k); [|apply named_fail_field, Ha].
    destruct (dec_payload k (buf st)) as [x n]. destruct (n <? 0); [apply named_fail_field, Ha|]. apply IH, named_next_field, He.
Qed.

Lemma message_named {T} F f (fn : @body T) : A f -> named_fn fn -> named_fn (dec_message F f fn).
Proof.
  intros Ha Hfn st t He. unfold dec_message. destruct (negb (f =? pf st)); [exact He|].
  destruct (negb (pw st =? BytesType)); [apply named_fail_field, Ha|].
  destruct (consume_bytes (buf st)) as [m n]. destruct (n <? 0); [apply named_fail_field, Ha|].
  pose proof (loop_named fn Hfn F (push_state m st) t (named_push m st He)) as Hl.
  destruct (Dec.loop F fn (push_state m st) t) as [inner' t']. cbn [fst] in *.
  apply named_next_field, named_pop, Hl.
Qed.

Lemma repmsg_named {T} f (fn : @body T) : A f -> named_fn fn -> forall fuel st t, named st -> named (fst (dec_repeated_message fuel f fn st t)).
Proof.
  intros Ha Hfn. induction fuel as [|fuel IH]; intros st t He; [exact He|]. cbn [dec_repeated_message].
  destruct (negb (f =? pf st)); [exact He|]. destruct (negb (pw st =? BytesType)); [apply named_fail_field, Ha|].
  destruct (consume_bytes (buf st)) as [m n]. destruct (n <? 0); [apply named_fail_field, Ha|].
  pose proof (Hfn (push_state m st) t (named_push m st He)) as H. destruct (fn (push_state m st) t) as [inner' t']. cbn [fst] in H.
  apply IH, named_next_field, named_pop, H.
Qed.

Lemma while_named num step : (forall st l, named st -> named (fst (step st l))) ->
  forall fuel st l, named st -> named (fst (while_pending fuel num step st l)).
Proof.
  intros Hs. induction fuel as [|fuel IH]; intros st l He; [exact He|]. cbn [while_pending].
  destruct (pf st =? num); [|exact He]. pose proof (Hs st l He) as H. destruct (step st l) as [st' l']. apply IH, H.
Qed.

(* an unknown field whose value cannot be parsed is reported with its own number: any non-negative number *)
Lemma unrec_named mask : (forall f, 0 <= f -> A f) -> forall fuel st out, named st -> named (fst (dec_unrecognized fuel mask st out)).
Proof.
  intros Ha. induction fuel as [|fuel IH]; intros st out He; [exact He|]. cbn [dec_unrecognized].
  destruct ((0 <=? pf st) && ((64 <=? pf st) || negb (Z.testbit mask (pf st)))) eqn:Em; [|exact He].
  apply andb_true_iff in Em. destruct Em as [Em _]. apply Z.leb_le in Em.
  destruct (consume_field_value (pf st) (pw st) (buf st) <? 0); [apply named_fail_field, Ha, Em|].
  apply IH, named_next_field, He.
Qed.

Hypothesis A1 : A 1.
Hypothesis A2 : A 2.

Lemma sec_nanos_named : named_fn dec_sec_nanos.
Proof.
  intros st sn He. unfold dec_sec_nanos.
  pose proof (single_named KInt64 1 st (VInt (fst sn)) A1 He) as H1. destruct (dec_single KInt64 1 st (VInt (fst sn))) as [st1 v1]. cbn [fst] in H1.
  pose proof (single_named KInt32 2 st1 (VInt (snd sn)) A2 H1) as H2. destruct (dec_single KInt32 2 st1 (VInt (snd sn))) as [st2 v2]. exact H2.
Qed.
Lemma duration_named F f st old : A f -> named st -> named (fst (dec_duration F f st old)).
Proof.
  intros Ha He. unfold dec_duration. destruct (negb (pf st =? f)); [exact He|].
  pose proof (message_named F f dec_sec_nanos Ha sec_nanos_named st (0, 0) He) as H. destruct (dec_message F f dec_sec_nanos st (0, 0)) as [st' [a b]]. exact H.
Qed.
Lemma timestamp_named F f st old : A f -> named st -> named (fst (dec_timestamp F f st old)).
Proof.
  intros Ha He. unfold dec_timestamp. destruct (negb (pf st =? f)); [exact He|].
  pose proof (message_named F f dec_sec_nanos Ha sec_nanos_named st (0, 0) He) as H. destruct (dec_message F f dec_sec_nanos st (0, 0)) as [st' [a b]]. exact H.
Qed.

(* the numbers a Decode statement passes to the readers it calls *)
Definition op_num (op : dop) : option Z :=
  match op with
  | DScalar _ _ _ _ num | DMsgPtr _ num _ | DMsgRepPtr _ num _ | DMsgPresent _ num _ | DMsgRepVal _ num _
  | DEnum _ num | DRepEnum _ num | DCast _ _ _ _ num | DOneof _ num _ _ | DOpaque _ num => Some num
  | DUnrec _ => None
  end.
Definition op_allowed (op : dop) : Prop :=
  match op_num op with Some num => A num | None => forall f, 0 <= f -> A f end.

Section Ops.
Variable progs : list prog.
Variable F : nat.
Variable rec : nat -> @body msgv.
Hypothesis rec_named : forall idx, named_fn (rec idx).

Lemma cast_elem_named c f st v : A f -> named st -> named (fst (dec_cast_elem F c f st v)).
Proof.
  intros Ha He. destruct c as [| |kk vk]; cbn [dec_cast_elem].
  - pose proof (timestamp_named F f st (match v with VTime s n => (s, n) | _ => (zero_time_sec, 0) end) Ha He) as H.
    destruct (dec_timestamp F f st _) as [st' [s n]]. exact H.
  - pose proof (duration_named F f st (match v with VDur d => d | _ => 0 end) Ha He) as H.
    destruct (dec_duration F f st _) as [st' d]. exact H.
  - unfold dec_map.
    match goal with |- context[dec_repeated_message F f ?fn st ?l] =>
      assert (Hfn : named_fn fn);
      [|pose proof (repmsg_named f fn Ha Hfn F st l He) as H; destruct (dec_repeated_message F f fn st l) as [st' l']; exact H] end.
    intros c0 m0 Hc.
    match goal with |- context[Dec.loop F ?body c0 ?z] =>
      assert (Hb : named_fn body);
      [|pose proof (loop_named body Hb F c0 z Hc) as H; destruct (Dec.loop F body c0 z) as [c' [k1 v1]]; exact H] end.
    intros c1 kv Hc1.
    pose proof (single_named kk 1 c1 (fst kv) A1 Hc1) as H1. destruct (dec_single kk 1 c1 (fst kv)) as [c2 k2]. cbn [fst] in H1.
    pose proof (single_named vk 2 c2 (snd kv) A2 H1) as H2. destruct (dec_single vk 2 c2 (snd kv)) as [c3 v3]. exact H2.
Qed.

Lemma dec_op_named op : op_allowed op -> named_fn (dec_op progs F rec op).
Proof.
  intros Ha st t He. unfold dec_op. destruct (op_match op st); [|exact He].
  destruct op; cbn [dec_op_run]; unfold op_allowed in Ha; cbn [op_num] in Ha.
  - destruct rep; [|destruct ptr].
    + pose proof (repeated_named k num Ha F st (as_list (slot_get (fst t) slot)) He) as H. destruct (dec_repeated F k num st _) as [st' l]. exact H.
    + destruct (pf st =? num); [|exact He]. pose proof (single_named k num st (zero_scalar k) Ha He) as H. destruct (dec_single k num st _) as [st' x]. exact H.
    + pose proof (single_named k num st (slot_get (fst t) slot) Ha He) as H. destruct (dec_single k num st _) as [st' x]. exact H.
  - match goal with |- context[dec_message F num ?fn st ?v] =>
      assert (Hfn : named_fn fn);
      [|pose proof (message_named F num fn Ha Hfn st v He) as H; destruct (dec_message F num fn st v) as [st' x]; exact H] end.
    intros c v Hc. cbv beta zeta. match goal with |- context[rec idx c ?m0] => pose proof (rec_named idx c m0 Hc) as H; destruct (rec idx c m0) as [c' m']; exact H end.
  - match goal with |- context[dec_repeated_message F num ?fn st ?v] =>
      assert (Hfn : named_fn fn);
      [|pose proof (repmsg_named num fn Ha Hfn F st v He) as H; destruct (dec_repeated_message F num fn st v) as [st' x]; exact H] end.
    intros c l Hc. pose proof (loop_named (rec idx) (rec_named idx) F c (zero_msgv progs idx) Hc) as H. destruct (Dec.loop F (rec idx) c _) as [c' m']. exact H.
  - match goal with |- context[dec_message F num ?fn st ?v] =>
      assert (Hfn : named_fn fn);
      [|pose proof (message_named F num fn Ha Hfn st v He) as H; destruct (dec_message F num fn st v) as [st' x]; exact H] end.
    intros c v Hc. cbv beta zeta. match goal with |- context[rec idx c ?m0] => pose proof (rec_named idx c m0 Hc) as H; destruct (rec idx c m0) as [c' m']; exact H end.
  - match goal with |- context[dec_repeated_message F num ?fn st ?v] =>
      assert (Hfn : named_fn fn);
      [|pose proof (repmsg_named num fn Ha Hfn F st v He) as H; destruct (dec_repeated_message F num fn st v) as [st' x]; exact H] end.
    intros c l Hc. pose proof (loop_named (rec idx) (rec_named idx) F c (zero_msgv progs idx) Hc) as H. destruct (Dec.loop F (rec idx) c _) as [c' m']. exact H.
  - pose proof (single_named KInt32 num st (slot_get (fst t) slot) Ha He) as H. destruct (dec_single KInt32 num st _) as [st' x]. exact H.
  - unfold dec_repeated_enum. pose proof (repeated_named KInt32 num Ha F st (as_list (slot_get (fst t) slot)) He) as H. destruct (dec_repeated F KInt32 num st _) as [st' l]. exact H.
  - destruct rep, ptr.
    + match goal with |- context[while_pending F num ?stp st ?l0] =>
        assert (S3 : forall st1 l1, named st1 -> named (fst (stp st1 l1)));
        [|pose proof (while_named num stp S3 F st l0 He) as H; destruct (while_pending F num stp st l0) as [st' x]; exact H] end.
      intros st1 l1 H1. pose proof (cast_elem_named c num st1 (cast_zero c) Ha H1) as H. destruct (dec_cast_elem F c num st1 (cast_zero c)). exact H.
    + match goal with |- context[while_pending F num ?stp st ?l0] =>
        assert (S3 : forall st1 l1, named st1 -> named (fst (stp st1 l1)));
        [|pose proof (while_named num stp S3 F st l0 He) as H; destruct (while_pending F num stp st l0) as [st' x]; exact H] end.
      intros st1 l1 H1. pose proof (cast_elem_named c num st1 (cast_zero c) Ha H1) as H. destruct (dec_cast_elem F c num st1 (cast_zero c)). exact H.
    + destruct (pf st =? num); [|exact He].
      match goal with |- context[dec_cast_elem F c num st ?v] => pose proof (cast_elem_named c num st v Ha He) as H; destruct (dec_cast_elem F c num st v) as [st' x]; exact H end.
    + match goal with |- context[dec_cast_elem F c num st ?v] => pose proof (cast_elem_named c num st v Ha He) as H; destruct (dec_cast_elem F c num st v) as [st' x]; exact H end.
  - apply named_fail_other; discriminate.
  - destruct (pf st =? num); [|exact He].
    destruct op; cbn [fst]; try (apply named_fail_other; discriminate).
    + match goal with |- context[dec_single k num st ?v] => pose proof (single_named k num st v Ha He) as H; destruct (dec_single k num st v) as [st' x]; exact H end.
    + match goal with |- context[dec_message F num ?fn st ?v] =>
        assert (Hfn : named_fn fn);
        [|pose proof (message_named F num fn Ha Hfn st v He) as H; destruct (dec_message F num fn st v) as [st' x]; exact H] end.
      intros c v Hc. cbv beta zeta. match goal with |- context[rec idx c ?m0] => pose proof (rec_named idx c m0 Hc) as H; destruct (rec idx c m0) as [c' m']; exact H end.
    + match goal with |- context[dec_message F num ?fn st ?v] =>
        assert (Hfn : named_fn fn);
        [|pose proof (message_named F num fn Ha Hfn st v He) as H; destruct (dec_message F num fn st v) as [st' x]; exact H] end.
      intros c v Hc. cbv beta zeta. match goal with |- context[rec idx c ?m0] => pose proof (rec_named idx c m0 Hc) as H; destruct (rec idx c m0) as [c' m']; exact H end.
    + match goal with |- context[dec_single KInt32 num st ?v] => pose proof (single_named KInt32 num st v Ha He) as H; destruct (dec_single KInt32 num st v) as [st' x]; exact H end.
    + match goal with |- context[dec_cast_elem F c num st ?v] => pose proof (cast_elem_named c num st v Ha He) as H; destruct (dec_cast_elem F c num st v) as [st' x]; exact H end.
  - pose proof (unrec_named mask Ha F st (snd t) He) as H. destruct (dec_unrecognized F mask st (snd t)) as [st' out]. exact H.
Qed.
End Ops.

(* every Decode method of a program list all of whose statements are allowed *)
Lemma dec_msg_named progs F : (forall p op, In p progs -> In op (p_dec p) -> op_allowed op) ->
  forall fuel idx, named_fn (dec_msg fuel progs F idx).
Proof.
  intros Hall. induction fuel as [|fuel IH]; intros idx st t He; [apply named_fail_other; discriminate|]. cbn [dec_msg].
  destruct (nth_error progs idx) as [p|] eqn:Ep; [|apply named_fail_other; discriminate].
  assert (Hops : forall op, In op (p_dec p) -> op_allowed op) by (intros op Hin; exact (Hall p op (nth_error_In _ _ Ep) Hin)).
  unfold dec_body. revert st t He. induction (p_dec p) as [|op ops IHo]; intros st t He; [exact He|]. cbn [fold_left fst snd].
  pose proof (dec_op_named progs F (dec_msg fuel progs F) IH op (Hops op (or_introl eq_refl)) st t He) as H1.
  destruct (dec_op progs F (dec_msg fuel progs F) op st t) as [st1 t1]. apply IHo; [intros o Ho; apply Hops; right; exact Ho|exact H1].
Qed.
End Named.

(* ---------------------------------------------------------------- the set of numbers for a given schema *)
Definition declared (progs : list prog) : list Z :=
  flat_map (fun p => flat_map (fun op => match op_num op with Some n => [n] | None => [] end) (p_dec p)) progs.
Definition captures (progs : list prog) : bool :=
  existsb (fun p => existsb (fun op => match op with DUnrec _ => true | _ => false end) (p_dec p)) progs.

Definition allowed (progs : list prog) (f : Z) : Prop :=
  In f (declared progs) \/ f = 1 \/ f = 2 \/ (captures progs = true /\ 0 <= f).

Lemma allowed_ops progs p op : In p progs -> In op (p_dec p) -> op_allowed (allowed progs) op.
Proof.
  intros Hp Hop. unfold op_allowed. destruct (op_num op) as [n|] eqn:En.
  - left. unfold declared. apply in_flat_map. exists p. split; [exact Hp|]. apply in_flat_map. exists op. split; [exact Hop|].
    rewrite En. left. reflexivity.
  - intros f Hf. right. right. right. split; [|exact Hf].
    unfold captures. apply existsb_exists. exists p. split; [exact Hp|]. apply existsb_exists. exists op. split; [exact Hop|].
    destruct op; try discriminate En. reflexivity.
Qed.

(* picobuf.Unmarshal, any schema, any input, any starting message: a wire-type / unparsable-value error names a declared field
   (or a sub-field 1/2 of a map entry or well-known type, or - capturing messages only - an unknown field's own number) *)
Theorem unmarshal_error_names_field progs idx data m0 f c m :
  pico_unmarshal progs idx data m0 = (Some (f, c), m) -> field_class c -> allowed progs f.
Proof.
  unfold pico_unmarshal. intros H Hc.
  set (st0 := next_field 0 {| pf := 0; pw := 0; buf := data; err := None |}) in *.
  set (F := S (S (S (length data)))) in *.
  assert (H0 : named (allowed progs) st0).
  { apply named_next_field. intros f' c' E. discriminate E. }
  assert (A1 : allowed progs 1) by (right; left; reflexivity).
  assert (A2 : allowed progs 2) by (right; right; left; reflexivity).
  pose proof (loop_named (allowed progs) (dec_msg F progs F idx)
                (dec_msg_named (allowed progs) A1 A2 progs F (allowed_ops progs) F idx) F st0 m0 H0) as Hn.
  destruct (Dec.loop F (dec_msg F progs F idx) st0 m0) as [st m']. injection H as He _. exact (Hn f c He Hc).
Qed.

(* reader level: a typed reader reports nothing but its own number *)
Theorem single_reader_names_itself k field st v f c : err st = None ->
  err (fst (dec_single k field st v)) = Some (f, c) -> field_class c -> f = field.
Proof.
  intros E0 E Hc. refine (single_named (fun x => x = field) k field st v eq_refl _ f c E Hc).
  intros f' c' E'. rewrite E0 in E'. discriminate E'.
Qed.
Theorem repeated_reader_names_itself fuel k field st vs f c : err st = None ->
  err (fst (dec_repeated fuel k field st vs)) = Some (f, c) -> field_class c -> f = field.
Proof.
  intros E0 E Hc. refine (repeated_named (fun x => x = field) k field eq_refl fuel st vs _ f c E Hc).
  intros f' c' E'. rewrite E0 in E'. discriminate E'.
Qed.

(* and only when its number is the pending one: the number in the offending record's tag *)
Theorem single_reader_error_is_pending k field st v f c : err st = None ->
  err (fst (dec_single k field st v)) = Some (f, c) -> field_class c -> pf st = f.
Proof.
  intros E0 E Hc. pose proof (single_reader_names_itself k field st v f c E0 E Hc) as ->.
  unfold dec_single in E. destruct (field =? pf st) eqn:Ef; cbn [negb] in E.
  - apply Z.eqb_eq in Ef. symmetry. exact Ef.
  - cbn [fst] in E. rewrite E0 in E. discriminate E.
Qed.

(* ---------------------------------------------------------------- a Repeated* reader only appends
   whatever the input holds (valid, malformed, packed, unpacked, several records, an error half-way), the list a Repeated*
   reader leaves behind is the list it found followed by new elements: nothing decoded earlier is lost or rewritten *)
Lemma dec_packed_appends k : forall fuel packed acc, exists xs, fst (dec_packed fuel k packed acc) = acc ++ xs.
Proof.
  induction fuel as [|fuel IH]; intros packed acc; [exists []; cbn; rewrite app_nil_r; reflexivity|]. cbn [dec_packed].
  destruct packed as [|b packed']; [exists []; cbn; rewrite app_nil_r; reflexivity|].
  destruct (dec_payload k (b :: packed')) as [x xn]. destruct (xn <? 0); [exists []; cbn; rewrite app_nil_r; reflexivity|].
  destruct (IH (skipn (Z.to_nat xn) (b :: packed')) (acc ++ [x])) as [xs E]. exists (x :: xs). rewrite E, <- app_assoc. reflexivity.
Qed.
Theorem repeated_reader_appends k f : forall fuel st vs, exists xs, snd (dec_repeated fuel k f st vs) = vs ++ xs.
Proof.
  induction fuel as [|fuel IH]; intros st vs; [exists []; cbn; rewrite app_nil_r; reflexivity|]. cbn [dec_repeated].
  destruct (negb (f =? pf st)); [exists []; cbn; rewrite app_nil_r; reflexivity|].
  destruct (is_scalar_wire k && (pw st =? BytesType)).
  - destruct (consume_bytes (buf st)) as [packed n]. destruct (n <? 0); [exists []; cbn; rewrite app_nil_r; reflexivity|].
    destruct (dec_packed_appends k (S (length packed)) packed vs) as [xs E].
    destruct (dec_packed (S (length packed)) k packed vs) as [vs' ok]. cbn [fst] in E. subst vs'.
    destruct ok; [|exists xs; reflexivity].
    destruct (IH (next_field n st) (vs ++ xs)) as [ys E2]. exists (xs ++ ys). rewrite E2, app_assoc. reflexivity.
  - destruct (pw st =? wire_of k); [|exists []; cbn; rewrite app_nil_r; reflexivity].
    destruct (dec_payload k (buf st)) as [x n]. destruct (n <? 0); [exists []; cbn; rewrite app_nil_r; reflexivity|].
    destruct (IH (next_field n st) (vs ++ [x])) as [ys E2]. exists (x :: ys). rewrite E2, <- app_assoc. reflexivity.
Qed.
