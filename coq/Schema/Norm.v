(* The "by design" absences (DESIGN.md 3.1): pointer to a zero time.Time comes
   back nil; zero/nil elements of a repeated time cast are not written; a nil
   element of a repeated message slice comes back as an empty message. *)
From Coq Require Import List ZArith Bool.
From Pico Require Import Base.Res Base.Mach Wire.Wire Schema.Types Schema.Scalar Schema.Gen Schema.Conv.
Import ListNotations.
Open Scope Z_scope.

Definition is_zero_time (v : val) : bool :=
  match v with VTime s n => time_is_zero s n | _ => false end.

Fixpoint norm_fields (fuel : nat) (s : schema) (idx : nat) (fs : list val) : list val :=
  match fuel with
  | O => fs
  | S g =>
      match nth_error s idx with
      | None => fs
      | Some m =>
          map (fun p : val * fdesc =>
                 let '(v, f) := p in
                 match f_custom f, fty f, v with
                 | (CTimestamp | CDuration), _, VOpt (Some x) => if is_zero_time x then VOpt None else v
                 | (CTimestamp | CDuration), _, VList l =>
                     VList (filter (fun e => match e with
                                             | VOpt None => false
                                             | VOpt (Some x) => negb (is_zero_time x)
                                             | x => negb (is_zero_time x)
                                             end) l)
                 | CNone, TMsg j, VMsg (Some (fs1, u)) => VMsg (Some (norm_fields g s j fs1, u))
                 | CNone, TMsg j, VEmb fs1 u => VEmb (norm_fields g s j fs1) u
                 | CNone, TMsg j, VOpt (Some x) =>        (* by-value member of a oneof *)
                     match x with VEmb fs1 u => VOpt (Some (VEmb (norm_fields g s j fs1) u)) | _ => v end
                 | CNone, TMsg j, VList l =>
                     VList (map (fun e => match e with
                                          | VMsg None => VMsg (Some (match nth_error s j with Some mj => zero_fields s mj | None => [] end, []))
                                          | VMsg (Some (fs1, u)) => VMsg (Some (norm_fields g s j fs1, u))
                                          | VEmb fs1 u => VEmb (norm_fields g s j fs1) u
                                          | x => x
                                          end) l)
                 | _, _, _ => v
                 end)
              (combine fs (mfields m))
      end
  end.
