(* Model of picoconv (Timestamp, Duration) on top of the encoder/decoder model,
   with Go's int64 wrap-around written out. *)
From Coq Require Import List ZArith Bool.
From Pico Require Import Base.Res Base.Mach Wire.Wire Schema.Types Schema.Scalar Enc.Enc Dec.Dec.
Import ListNotations.
Open Scope Z_scope.

Definition second : Z := 1000000000.

(* ---- Duration *)
(* n := z.Nanoseconds(); seconds := n / 1e9; nanos := int32(n - seconds*1e9)  (Go / truncates) *)
Definition dur_split (d : Z) : Z * Z :=
  let seconds := Z.quot d second in
  (seconds, s32 (d - seconds * second)).

(* z := Duration(seconds) * Second (wraps); overflow tests as in duration.go *)
Definition dur_join (seconds nanos : Z) : Z :=
  let z0 := s64 (seconds * second) in
  let ov0 := negb (Z.quot z0 second =? seconds) in
  let z := s64 (z0 + nanos) in
  let ov := ov0 || ((seconds <? 0) && (nanos <? 0) && (0 <? z)) || ((0 <? seconds) && (0 <? nanos) && (z <? 0)) in
  if ov then
    (if seconds <? 0 then - 2 ^ 63 else if 0 <? seconds then 2 ^ 63 - 1 else z)
  else z.

(* ---- Timestamp: time.Time is represented by (Unix(), Nanosecond()) *)
Definition time_is_zero (sec nsec : Z) : bool := (sec =? zero_time_sec) && (nsec =? 0).

(* time.Unix(sec, nsec).UTC() observed through Unix()/Nanosecond() (int64 wrap included) *)
Definition time_unix (sec nsec : Z) : Z * Z :=
  if (nsec <? 0) || (second <=? nsec) then
    let n := Z.quot nsec second in
    let sec1 := s64 (sec + n) in
    let nsec1 := nsec - n * second in
    if nsec1 <? 0 then (s64 (sec1 - 1), nsec1 + second) else (sec1, nsec1)
  else (sec, nsec).

(* the {int64 seconds = 1; int32 nanos = 2} body both casts write *)
Definition enc_sec_nanos (seconds nanos : Z) (b : bytes) : result (bytes * bool) :=
  Ok (enc_single KInt32 false 2 (VInt nanos) (enc_single KInt64 false 1 (VInt seconds) b), true).

(* Duration.PicoEncode on a non-nil pointer *)
Definition enc_duration (field : Z) (d : Z) (buf : bytes) : result bytes :=
  let '(seconds, nanos) := dur_split d in
  enc_message field (enc_sec_nanos seconds nanos) buf.

(* Timestamp.PicoEncode on a non-nil pointer *)
Definition enc_timestamp (field : Z) (sec nsec : Z) (buf : bytes) : result bytes :=
  if time_is_zero sec nsec then Ok buf
  else enc_message field (enc_sec_nanos sec (s32 nsec)) buf.

(* the decode body: c.Int64(1, &seconds); c.Int32(2, &nanos) *)
Definition dec_sec_nanos : @body (Z * Z) := fun st sn =>
  let '(st1, v1) := dec_single KInt64 1 st (VInt (fst sn)) in
  let '(st2, v2) := dec_single KInt32 2 st1 (VInt (snd sn)) in
  (st2, (as_int v1, as_int v2)).

(* PicoDecode: if c.PendingField() != field return; ... *)
Definition dec_duration (F : nat) (field : Z) (st : dstate) (old : Z) : dstate * Z :=
  if negb (pf st =? field) then (st, old) else
  let '(st', (seconds, nanos)) := dec_message F field dec_sec_nanos st (0, 0) in
  (st', dur_join seconds nanos).

Definition dec_timestamp (F : nat) (field : Z) (st : dstate) (old : Z * Z) : dstate * (Z * Z) :=
  if negb (pf st =? field) then (st, old) else
  let '(st', (seconds, nanos)) := dec_message F field dec_sec_nanos st (0, 0) in
  (st', time_unix seconds nanos).
