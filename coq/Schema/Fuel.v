(* The nesting budget of the reference decoder: any budget above the input length is enough. *)
From Coq Require Import List ZArith Lia Bool Arith.
From Pico Require Import Base.Res Base.ListX Base.Mach Wire.Wire Schema.Types Schema.Scalar Schema.Gen Schema.Conv Schema.Interp Ref.Ref
  Wire.VarintProofs Dec.Dec Dec.SafetyProofs Dec.TokenBridge Dec.TokenApp Dec.StreamLoop Dec.ReaderBridge Schema.TDec Schema.Concat.
Import ListNotations.
Open Scope Z_scope.

(* a length-delimited token's payload is at least two bytes shorter than the buffer it was cut from *)
Lemma parse_value_payload_len num wt rest p k b : bytes_ok rest -> parse_value num wt rest = Some (p, k) -> p = PBytes b ->
  (length b + 1 <= k)%nat.
Proof.
  intros Hb E ->. pose proof (parse_value_wire _ _ _ _ _ E) as Hw. cbn in Hw. subst wt. cbn [parse_value] in E.
  pose proof (consume_varint_parse rest Hb) as Hv.
  destruct (spec_parse_varint rest) as [[len kk]|]; [|discriminate E]. destruct Hv as [_ [Hk Hlen]].
  destruct (has_len_z (skipn kk rest) len) eqn:Eh; cbn [negb] in E; [|discriminate E].
  injection E as <- <-. rewrite firstn_length. rewrite has_len_z_spec in Eh. apply Z.leb_le in Eh. lia.
Qed.

Lemma parse_token_payload_len b t n pb : bytes_ok b -> parse_token b = Some (t, n) -> t_pay t = PBytes pb ->
  (length pb + 2 <= n)%nat /\ (n <= length b)%nat.
Proof.
  intros Hb E Hp. destruct (parse_token_app b [] t n Hb E) as [_ Hn]. split; [|exact Hn].
  unfold parse_token in E. pose proof (consume_varint_parse b Hb) as Hv.
  destruct (spec_parse_varint b) as [[x k]|]; [|discriminate E]. destruct Hv as [_ [Hk _]].
  destruct (negb (valid_num (x / 8))); [discriminate E|].
  destruct (parse_value (x / 8) (x mod 8) (skipn k b)) as [[p kk]|] eqn:Ep; [|discriminate E].
  injection E as <- <-. cbn [t_pay] in Hp.
  pose proof (parse_value_payload_len _ _ _ _ _ pb (bytes_ok_skipn k b Hb) Ep Hp). lia.
Qed.

Lemma tokens_payload_len : forall n b ts, length b = n -> bytes_ok b -> tokens b = Some ts ->
  forall t pb, In t ts -> t_pay t = PBytes pb -> (length pb + 2 <= length b)%nat.
Proof.
  induction n as [n IH] using lt_wf_ind. intros b ts En Hb Ht t pb Hin Hp.
  destruct b as [|y l]; [rewrite tokens_nil in Ht; injection Ht as <-; destruct Hin|].
  rewrite tokens_cons in Ht by discriminate.
  destruct (parse_token (y :: l)) as [[t0 k]|] eqn:Ep; [|discriminate Ht]. destruct k as [|k]; [discriminate Ht|].
  destruct (tokens (skipn (S k) (y :: l))) as [ts'|] eqn:Es; [|discriminate Ht]. injection Ht as <-.
  destruct Hin as [<-|Hin].
  - destruct (parse_token_payload_len _ _ _ pb Hb Ep Hp) as [H1 H2]. lia.
  - pose proof (IH (length (skipn (S k) (y :: l))) ltac:(subst n; rewrite skipn_length; cbn [length]; lia) _ ts' eq_refl (bytes_ok_skipn _ _ Hb) Es t pb Hin Hp) as H.
    rewrite skipn_length in H. lia.
Qed.

Section Agree.
Variable s : schema.
Variables rec1 rec2 : nat -> bytes -> msgv -> option msgv.

(* apply_known only consults the sub-decoder on the token's own payload *)
Lemma apply_known_agree m slot f t fs : (forall idx b x, t_pay t = PBytes b -> rec1 idx b x = rec2 idx b x) ->
  apply_known s rec1 m slot f t fs = apply_known s rec2 m slot f t fs.
Proof.
  intros H. unfold apply_known. destruct (f_custom f); try reflexivity. destruct (fty f) as [k| |idx|kk vk|]; try reflexivity.
  destruct (t_pay t) as [pv|pv|pv|b|] eqn:Ep; try reflexivity.
  destruct (i_repeated (field_info s f)); [rewrite (H idx b _ eq_refl); reflexivity|].
  destruct (i_pointer (field_info s f)); [rewrite (H idx b _ eq_refl); reflexivity|].
  destruct (i_oneof (field_info s f)); rewrite (H idx b _ eq_refl); reflexivity.
Qed.
Lemma fold_agree m ts : (forall t idx b x, In t ts -> t_pay t = PBytes b -> rec1 idx b x = rec2 idx b x) ->
  forall o, fold_opt (apply_token s rec1 m) ts o = fold_opt (apply_token s rec2 m) ts o.
Proof.
  induction ts as [|t ts IH]; intros H o; [reflexivity|]. destruct o as [x|]; [|rewrite !fold_opt_none; reflexivity].
  rewrite !fold_opt_cons.
  assert (E : apply_token s rec1 m t x = apply_token s rec2 m t x).
  { unfold apply_token. destruct (find_field m (t_num t)) as [[slot f]|]; [|reflexivity].
    rewrite (apply_known_agree m slot f t (fst x)); [reflexivity|]. intros idx b y Hp. apply (H t idx b y (or_introl eq_refl) Hp). }
  rewrite E. apply IH. intros t0 idx b y Hin Hp. apply (H t0 idx b y (or_intror Hin) Hp).
Qed.
End Agree.

(* every budget above the input length gives the same result *)
Theorem ref_decode_fuel s : forall n b, length b = n -> bytes_ok b -> forall g1 g2 idx x, (length b < g1)%nat -> (length b < g2)%nat ->
  ref_decode g1 s idx b x = ref_decode g2 s idx b x.
Proof.
  induction n as [n IH] using lt_wf_ind. intros b En Hb g1 g2 idx x H1 H2.
  destruct g1 as [|g1]; [lia|]. destruct g2 as [|g2]; [lia|]. rewrite !ref_decode_unfold.
  destruct (nth_error s idx) as [m|]; [|reflexivity]. destruct (tokens b) as [ts|] eqn:Et; [|reflexivity].
  apply fold_agree. intros t idx' pb y Hin Hp.
  pose proof (tokens_payload_len (length b) b ts eq_refl Hb Et t pb Hin Hp) as Hl.
  assert (Hbp : bytes_ok pb).
  { (* payload bytes come from the input *)
    clear -Hb Et Hin Hp. revert ts Et Hin. remember (length b) as n eqn:En. revert b En Hb.
    induction n as [n IHn] using lt_wf_ind. intros b En Hb ts Et Hin.
    destruct b as [|y l]; [rewrite tokens_nil in Et; injection Et as <-; destruct Hin|].
    rewrite tokens_cons in Et by discriminate.
    destruct (parse_token (y :: l)) as [[t0 k]|] eqn:Ep; [|discriminate Et]. destruct k as [|k]; [discriminate Et|].
    destruct (tokens (skipn (S k) (y :: l))) as [ts'|] eqn:Es; [|discriminate Et]. injection Et as <-.
    destruct Hin as [<-|Hin].
    - unfold parse_token in Ep. destruct (spec_parse_varint (y :: l)) as [[xx kk]|]; [|discriminate Ep].
      destruct (negb (valid_num (xx / 8))); [discriminate Ep|].
      destruct (parse_value (xx / 8) (xx mod 8) (skipn kk (y :: l))) as [[p k2]|] eqn:Epv; [|discriminate Ep].
      injection Ep as <- _. cbn [t_pay] in Hp. subst p.
      pose proof (parse_value_wire _ _ _ _ _ Epv) as Hw. cbn in Hw. rewrite Hw in Epv. cbn [parse_value] in Epv.
      destruct (spec_parse_varint (skipn kk (y :: l))) as [[len k3]|]; [|discriminate Epv].
      destruct (negb (has_len_z (skipn k3 (skipn kk (y :: l))) len)); [discriminate Epv|]. injection Epv as <- _.
      apply bytes_ok_firstn, bytes_ok_skipn, bytes_ok_skipn, Hb.
    - apply (IHn (length (skipn (S k) (y :: l))) ltac:(subst n; rewrite skipn_length; cbn [length]; lia) _ eq_refl (bytes_ok_skipn _ _ Hb) ts' Es Hin). }
  apply (IH (length pb) ltac:(lia) pb eq_refl Hbp g1 g2 idx' y); lia.
Qed.

Corollary ref_decode_enough s b g1 g2 idx x y : bytes_ok b -> ref_decode g1 s idx b x = Some y -> (length b < g2)%nat ->
  ref_decode g2 s idx b x = Some y.
Proof.
  intros Hb H Hg. destruct (Nat.lt_ge_cases (length b) g1) as [Hl|Hl].
  - rewrite <- (ref_decode_fuel s (length b) b eq_refl Hb g1 g2 idx x Hl Hg). exact H.
  - (* g1 <= length b < g2: more budget keeps a successful result *)
    apply (ref_decode_mono_le s g1 g2 idx b x y); [lia|exact H].
Qed.
