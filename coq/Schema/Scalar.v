(* The 15-row scalar table: wire type, default test, encode/decode transforms. *)
From Coq Require Import List ZArith Bool.
From Pico Require Import Base.Res Base.Mach Wire.Wire Schema.Types.
Import ListNotations.
Open Scope Z_scope.

Definition wire_of (k : kind) : Z :=
  match k with
  | KFixed32 | KSfixed32 | KFloat => Fixed32Type
  | KFixed64 | KSfixed64 | KDouble => Fixed64Type
  | KString | KBytes => BytesType
  | _ => VarintType
  end.

Definition is_bytes_kind (k : kind) : bool := match k with KString | KBytes => true | _ => false end.
Definition is_scalar_wire (k : kind) : bool := negb (is_bytes_kind k).   (* generatecoder IsScalar *)

(* EncodeFmt column: Go value -> the unsigned integer handed to Append<Suffix> *)
Definition enc_tr (k : kind) (v : Z) : Z :=
  match k with
  | KBool => if v =? 0 then 0 else 1          (* encodeBool64 *)
  | KInt32 | KInt64 => u64 v                   (* uint64(v): sign extension *)
  | KUint32 | KUint64 => v
  | KSint32 => encode_zigzag32 v               (* uint64(encodeZigZag32(v)) *)
  | KSint64 => encode_zigzag64 v
  | KFixed32 | KFixed64 => v
  | KSfixed32 => u32 v                         (* uint32(v) *)
  | KSfixed64 => u64 v                         (* uint64(v) *)
  | KFloat | KDouble => v                      (* math.Float32bits: identity on bit patterns *)
  | KString | KBytes => v
  end.

(* DecodeFmt column: the integer returned by Consume<Suffix> -> Go value *)
Definition dec_tr (k : kind) (x : Z) : Z :=
  match k with
  | KBool => if x =? 0 then 0 else 1          (* x != 0 *)
  | KInt32 => s32 x                            (* int32(x) *)
  | KInt64 => s64 x
  | KUint32 => u32 x
  | KUint64 => x
  | KSint32 => decode_zigzag32 (u32 x)         (* decodeZigZag32(uint32(x)) *)
  | KSint64 => decode_zigzag64 x
  | KFixed32 | KFixed64 => x
  | KSfixed32 => s32 x
  | KSfixed64 => s64 x
  | KFloat | KDouble => x
  | KString | KBytes => x
  end.

(* the non-Always writers' default test *)
Definition is_default (k : kind) (v : val) : bool :=
  if is_bytes_kind k then Nat.eqb (length (as_bytes v)) 0
  else as_int v =? 0.   (* bool: not v ; integers: v == 0 ; floats: Float32bits(v) == 0 *)

(* protowire.Append<Suffix>(buf, EncodeFmt(v)) *)
Definition enc_payload (k : kind) (v : val) : bytes :=
  match wire_of k with
  | 0 => append_varint (enc_tr k (as_int v))
  | 5 => append_fixed32 (enc_tr k (as_int v))
  | 1 => append_fixed64 (enc_tr k (as_int v))
  | _ => append_bytes (as_bytes v)
  end.

(* protowire.Consume<Suffix>(b): (decoded Go value, n) *)
Definition dec_payload (k : kind) (b : bytes) : val * Z :=
  match wire_of k with
  | 0 => let '(x, n) := consume_varint b in (VInt (dec_tr k x), n)
  | 5 => let '(x, n) := consume_fixed32 b in (VInt (dec_tr k x), n)
  | 1 => let '(x, n) := consume_fixed64 b in (VInt (dec_tr k x), n)
  | _ => let '(x, n) := consume_bytes b in (VBytes x, n)
  end.

Definition zero_scalar (k : kind) : val := if is_bytes_kind k then VBytes [] else VInt 0.

(* range of the Go type of a kind *)
Definition scalar_ok (k : kind) (v : val) : bool :=
  match k, v with
  | KBool, VInt z => (z =? 0) || (z =? 1)
  | (KInt32 | KSint32 | KSfixed32), VInt z => in_sb 32 z
  | (KInt64 | KSint64 | KSfixed64), VInt z => in_sb 64 z
  | (KUint32 | KFixed32 | KFloat), VInt z => in_ub 32 z
  | (KUint64 | KFixed64 | KDouble), VInt z => in_ub 64 z
  | (KString | KBytes), VBytes b => forallb byte_ok b && (Z.of_nat (length b) <? 2 ^ 63)   (* Go: len fits int *)
  | _, _ => false
  end.
