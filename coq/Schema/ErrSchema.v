(* C19, in terms of the SCHEMA: for the Decode methods the generator model emits (gen_all s), the numbers a wire-type /
   unparsable-value error of Unmarshal can carry are field numbers declared in s (in the message given to Unmarshal or in one
   nested below it), 1 or 2 (sub-fields of map entries, Timestamp, Duration), or - only if some message of s captures
   unrecognized fields - an unknown field's own number. *)
From Coq Require Import List ZArith Lia Bool Arith.
From Pico Require Import Base.Res Base.ListX Base.Mach Wire.Wire Schema.Types Schema.Scalar Schema.Gen Schema.Conv Schema.Interp
  Dec.Dec Schema.TEnc Schema.ErrName.
Import ListNotations.
Open Scope Z_scope.

Lemma gen_field_decode_num s sib slot f d : gen_field_decode s sib slot f = GOk d -> op_num d = Some (fnum f).
Proof.
  unfold gen_field_decode. intros H.
  assert (W : forall d0, op_num d0 = Some (fnum f) -> op_num (if i_oneof (field_info s f) then DOneof slot (fnum f) sib d0 else d0) = Some (fnum f)).
  { intros d0 H0. destruct (i_oneof (field_info s f)); [reflexivity|exact H0]. }
  destruct (i_kind (field_info s f)) as [k|idx| | | |c|].
  - destruct (i_repeated (field_info s f) && i_pointer (field_info s f)); [discriminate H|]. injection H as <-. apply W. reflexivity.
  - injection H as <-. apply W. destruct (i_pointer (field_info s f)), (i_repeated (field_info s f)); reflexivity.
  - destruct (i_pointer (field_info s f)); [discriminate H|]. injection H as <-. apply W. destruct (i_repeated (field_info s f)); reflexivity.
  - discriminate H.
  - injection H as <-. apply W. reflexivity.
  - injection H as <-. apply W. reflexivity.
  - injection H as <-. apply W. reflexivity.
Qed.

Lemma gmap_In {A B} (f : A -> gres B) l : forall ys y, gmap f l = GOk ys -> In y ys -> exists x, In x l /\ f x = GOk y.
Proof.
  induction l as [|x l IH]; intros ys y H Hin; cbn [gmap] in H; [injection H as <-; destruct Hin|].
  destruct (f x) as [y0|r] eqn:E; [|discriminate H]. destruct (gmap f l) as [ys0|r]; [|discriminate H]. injection H as <-.
  destruct Hin as [<-|Hin]; [exists x; split; [left; reflexivity|exact E]|].
  destruct (IH ys0 y eq_refl Hin) as [x1 [H1 H2]]. exists x1. split; [right; exact H1|exact H2].
Qed.

Lemma gen_decode_nums s m ops op : gen_decode s m = GOk ops -> In op ops ->
  (exists f, In f (mfields m) /\ op_num op = Some (fnum f)) \/ (op_num op = None /\ m_capture m = true).
Proof.
  unfold gen_decode. intros H Hin.
  destruct (gmap _ (sort_by_num (number_from 0 (mfields m)))) as [ops0|r] eqn:E; [|discriminate H].
  assert (Hops0 : forall o, In o ops0 -> exists f, In f (mfields m) /\ op_num o = Some (fnum f)).
  { intros o Ho. destruct (gmap_In _ _ _ o E Ho) as [p [Hp Hg]]. exists (snd p). split.
    - apply (number_from_In (mfields m) 0%nat p). apply sort_by_num_In. exact Hp.
    - exact (gen_field_decode_num s _ _ _ _ Hg). }
  destruct (m_capture m) eqn:Ec.
  - destruct (fields_bitset m) as [z|r]; [|discriminate H]. injection H as <-. apply in_app_or in Hin.
    destruct Hin as [Hin|[<-|[]]]; [left; apply Hops0; exact Hin|right; split; reflexivity].
  - injection H as <-. left. apply Hops0. exact Hin.
Qed.

(* the field numbers declared anywhere in the schema *)
Definition schema_numbers (s : schema) : list Z := flat_map (fun m => map fnum (mfields m)) s.
Definition schema_captures (s : schema) : bool := existsb m_capture s.

Lemma gen_all_progs s progs p : gen_all s = GOk progs -> In p progs -> exists m, In m s /\ gen_decode s m = GOk (p_dec p).
Proof.
  unfold gen_all. intros H Hin. destruct (gmap_In _ _ _ p H Hin) as [m [Hm Hg]]. exists m. split; [exact Hm|].
  unfold gen_prog in Hg. destruct (gen_encode s m) as [e|r]; [|discriminate Hg]. destruct (gen_decode s m) as [d|r]; [|discriminate Hg].
  injection Hg as <-. reflexivity.
Qed.

Lemma declared_in_schema s progs n : gen_all s = GOk progs -> In n (declared progs) -> In n (schema_numbers s).
Proof.
  intros H Hin. unfold declared in Hin. apply in_flat_map in Hin. destruct Hin as [p [Hp Hin]]. apply in_flat_map in Hin.
  destruct Hin as [op [Hop Hn]]. destruct (gen_all_progs s progs p H Hp) as [m [Hm Hd]].
  destruct (gen_decode_nums s m (p_dec p) op Hd Hop) as [[f [Hf En]]|[En _]]; rewrite En in Hn; [|destruct Hn].
  destruct Hn as [<-|[]]. unfold schema_numbers. apply in_flat_map. exists m. split; [exact Hm|]. apply in_map. exact Hf.
Qed.

Lemma captures_in_schema s progs : gen_all s = GOk progs -> captures progs = true -> schema_captures s = true.
Proof.
  intros H Hc. unfold captures in Hc. apply existsb_exists in Hc. destruct Hc as [p [Hp Hc]]. apply existsb_exists in Hc.
  destruct Hc as [op [Hop Hu]]. destruct (gen_all_progs s progs p H Hp) as [m [Hm Hd]].
  destruct (gen_decode_nums s m (p_dec p) op Hd Hop) as [[f [_ En]]|[_ Ec]].
  - destruct op; try discriminate Hu. discriminate En.
  - unfold schema_captures. apply existsb_exists. exists m. split; assumption.
Qed.

Theorem unmarshal_error_names_schema_field s progs idx data m0 f c m : gen_all s = GOk progs ->
  pico_unmarshal progs idx data m0 = (Some (f, c), m) -> field_class c ->
  In f (schema_numbers s) \/ f = 1 \/ f = 2 \/ (schema_captures s = true /\ 0 <= f).
Proof.
  intros Hg Hu Hc. destruct (unmarshal_error_names_field progs idx data m0 f c m Hu Hc) as [H|[H|[H|[H1 H2]]]].
  - left. exact (declared_in_schema s progs f Hg H).
  - right; left; exact H.
  - right; right; left; exact H.
  - right; right; right. split; [exact (captures_in_schema s progs Hg H1)|exact H2].
Qed.
