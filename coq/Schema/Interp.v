(* Semantics of the emitted Encode/Decode programs over `val` (MsgEnc / MsgDec). *)
From Coq Require Import List ZArith Bool Arith.
From Pico Require Import Base.Res Base.Mach Wire.Wire Schema.Types Schema.Scalar Schema.Gen Enc.Enc Dec.Dec Schema.Conv.
Import ListNotations.
Open Scope Z_scope.

Definition msgv := (list val * bytes)%type.   (* fields (one per slot) and XXX_unrecognized *)
Definition slot_get (fs : list val) (i : nat) : val := nth i fs (VInt 0).

Fixpoint rfold {A B} (f : A -> B -> result B) (l : list A) (b : B) : result B :=
  match l with
  | [] => Ok b
  | x :: t => let! b' := f x b in rfold f t b'
  end.

(* ------------------------------------------------------------------ encode *)
Section Enc.
Variable progs : list prog.
(* rec idx m buf = the Encode method of message idx applied to pointer m (None = nil) *)
Variable rec : nat -> option msgv -> bytes -> result (bytes * bool).

Definition opt_of_msg (v : val) : option msgv :=
  match v with VMsg o => o | VEmb fs u => Some (fs, u) | _ => None end.

(* picowire.MapKV.PicoEncode: for key, val := range m { enc.AlwaysAnyBytes(field, {K(1,&key); V(2,&val)}) } *)
Definition enc_map (kk vk : kind) (field : Z) (entries : list (val * val)) (buf : bytes) : result bytes :=
  rfold (fun e b => always_any_bytes field
                      (fun b0 => Ok (enc_single vk false 2 (snd e) (enc_single kk false 1 (fst e) b0))) b)
        entries buf.

Definition enc_cast_elem (c : cast) (field : Z) (v : val) (buf : bytes) : result bytes :=
  match c, v with
  | CastTs, VTime sec nsec => enc_timestamp field sec nsec buf
  | CastDur, VDur d => enc_duration field d buf
  | CastMap kk vk, VMap l => enc_map kk vk field l buf
  | _, _ => Ok buf
  end.

Fixpoint enc_op (fs : list val) (un : bytes) (op : eop) (buf : bytes) {struct op} : result bytes :=
  match op with
  | EScalar k always rep ptr slot num =>
      let v := slot_get fs slot in
      if rep then enc_repeated k always num (as_list v) buf
      else if ptr then
        match v with
        | VOpt (Some x) => Ok (enc_single k always num x buf)
        | _ => Ok buf                                   (* nil pointer *)
        end
      else Ok (enc_single k always num v buf)
  | EMsgPtr slot num idx => enc_message num (rec idx (opt_of_msg (slot_get fs slot))) buf
  | EMsgRepPtr slot num idx | EMsgRepVal slot num idx =>
      rfold (fun x b => enc_always_message num (rec idx (opt_of_msg x)) b) (as_list (slot_get fs slot)) buf
  | EMsgPresent slot num idx => enc_present_message num (rec idx (opt_of_msg (slot_get fs slot))) buf
  | EMsgAlwaysVal slot num idx => enc_always_message num (rec idx (opt_of_msg (slot_get fs slot))) buf
  | EEnum always slot num => Ok (enc_single KInt32 always num (slot_get fs slot) buf)
  | ERepEnum slot num => enc_repeated_enum num (map as_int (as_list (slot_get fs slot))) buf
  | ECast c ptr rep slot num =>
      let v := slot_get fs slot in
      let one (x : val) (b : bytes) :=
          if ptr then match x with VOpt (Some y) => enc_cast_elem c num y b | _ => Ok b end
          else enc_cast_elem c num x b in
      if rep then rfold one (as_list v) buf else one v buf
  | EOpaque _ _ => Panic                                 (* no semantics: excluded by wf_schema *)
  | EOneof slot inner =>
      match slot_get fs slot, inner with
      | VOpt (Some x), EScalar k always _ _ _ num => Ok (enc_single k always num x buf)
      | VOpt (Some x), EEnum always _ num => Ok (enc_single KInt32 always num x buf)
      | VOpt (Some x), ECast c _ _ _ num => enc_cast_elem c num x buf
      | VMsg (Some m), EMsgPtr _ num idx => enc_message num (rec idx (Some m)) buf
      | VOpt (Some x), EMsgAlwaysVal _ num idx =>
          match x with VEmb fs1 u1 => enc_always_message num (rec idx (Some (fs1, u1))) buf | _ => Ok buf end
      | _, _ => Ok buf                                    (* another member (or none) selected *)
      end
  | EUnrec => Ok (buf ++ un)
  end.
End Enc.

(* the Encode method of message idx; fuel bounds the nesting depth of the value *)
Fixpoint enc_msg (fuel : nat) (progs : list prog) (idx : nat) (m : option msgv) (buf : bytes) : result (bytes * bool) :=
  match fuel with
  | O => Panic
  | S f =>
      match m with
      | None => Ok (buf, false)                           (* if m == nil { return false } *)
      | Some (fs, un) =>
          match nth_error progs idx with
          | None => Panic
          | Some p =>
              let! b := rfold (enc_op (enc_msg f progs) fs un) (p_enc p) buf in
              Ok (b, true)
          end
      end
  end.

(* picobuf.Marshal *)
Definition pico_marshal (fuel : nat) (progs : list prog) (idx : nat) (m : msgv) : result bytes :=
  let! '(b, _) := enc_msg fuel progs idx (Some m) [] in Ok b.

(* nesting depth of a value (fuel for enc_msg) *)
Fixpoint val_depth (fuel : nat) (v : val) : nat :=
  match fuel with O => O | S f =>
  match v with
  | VOpt (Some x) => val_depth f x
  | VList l => fold_left (fun a x => Nat.max a (val_depth f x)) l O
  | VMsg (Some (fs, _)) => S (fold_left (fun a x => Nat.max a (val_depth f x)) fs O)
  | VEmb fs _ => S (fold_left (fun a x => Nat.max a (val_depth f x)) fs O)
  | _ => O
  end end.

(* ------------------------------------------------------------------ decode *)
Definition map_set (l : list (val * val)) (k v : val) (keq : val -> val -> bool) : list (val * val) :=
  if existsb (fun e => keq (fst e) k) l
  then map (fun e => if keq (fst e) k then (fst e, v) else e) l
  else l ++ [(k, v)].

Definition key_eqb (a b : val) : bool :=
  match a, b with
  | VInt x, VInt y => x =? y
  | VBytes x, VBytes y => if list_eq_dec Z.eq_dec x y then true else false
  | _, _ => false
  end.

(* the pending-field test of a statement group *)
Definition op_match (op : dop) (st : dstate) : bool :=
  match op with
  | DScalar _ _ _ _ num | DMsgPtr _ num _ | DMsgRepPtr _ num _ | DMsgPresent _ num _ | DMsgRepVal _ num _
  | DEnum _ num | DRepEnum _ num | DCast _ _ _ _ num | DOneof _ num _ _ => pf st =? num
  | DOpaque _ _ => true
  | DUnrec mask => (0 <=? pf st) && ((64 <=? pf st) || negb (Z.testbit mask (pf st)))
  end.

Section Dec.
Variable progs : list prog.
(* one fuel for every loop of this Unmarshal call: > length of the whole input + 1 *)
Variable F : nat.
(* rec idx = the Decode method of message idx, as a Loop body over its fields *)
Variable rec : nat -> @body msgv.

Definition zero_msgv (idx : nat) : msgv :=
  match nth_error progs idx with Some p => (p_zero p, []) | None => ([], []) end.

Definition set_slot (t : msgv) (slot : nat) (v : val) : msgv := (set_nth (fst t) slot v, snd t).

(* picowire map PicoDecode *)
Definition dec_map (kk vk : kind) (field : Z) (st : dstate) (entries : list (val * val)) : dstate * list (val * val) :=
  dec_repeated_message F field
    (fun c m =>
       let '(c', (k, v)) :=
           loop F
                (fun c0 (kv : val * val) =>
                   let '(c1, k1) := dec_single kk 1 c0 (fst kv) in
                   let '(c2, v1) := dec_single vk 2 c1 (snd kv) in
                   (c2, (k1, v1)))
                c (zero_scalar kk, zero_scalar vk) in
       (c', map_set m k v key_eqb))
    st entries.

Definition cast_zero (c : cast) : val :=
  match c with CastTs => VTime zero_time_sec 0 | CastDur => VDur 0 | CastMap _ _ => VMap [] end.

(* PicoDecode of one cast element *)
Definition dec_cast_elem (c : cast) (field : Z) (st : dstate) (v : val) : dstate * val :=
  match c with
  | CastTs =>
      let old := match v with VTime s n => (s, n) | _ => (zero_time_sec, 0) end in
      let '(st', (s, n)) := dec_timestamp F field st old in (st', VTime s n)
  | CastDur =>
      let '(st', d) := dec_duration F field st (match v with VDur d => d | _ => 0 end) in (st', VDur d)
  | CastMap kk vk =>
      let '(st', l) := dec_map kk vk field st (match v with VMap l => l | _ => [] end) in (st', VMap l)
  end.

(* for c.PendingField() == num { ... } loops of the cast/custom variants *)
Fixpoint while_pending (fuel : nat) (num : Z) (step : dstate -> list val -> dstate * list val)
         (st : dstate) (l : list val) : dstate * list val :=
  match fuel with
  | O => (st, l)
  | S f => if pf st =? num then let '(st', l') := step st l in while_pending f num step st' l' else (st, l)
  end.

Definition dec_op_run (op : dop) (st : dstate) (t : msgv) : dstate * msgv :=
  match op with
  | DScalar k rep ptr slot num =>
      let v := slot_get (fst t) slot in
      if rep then
        let '(st', l) := dec_repeated F k num st (as_list v) in (st', set_slot t slot (VList l))
      else if ptr then
        (* if c.PendingField() == num { m.F = new(T); c.K(num, m.F) } *)
        if pf st =? num then
          let '(st', x) := dec_single k num st (zero_scalar k) in (st', set_slot t slot (VOpt (Some x)))
        else (st, t)
      else
        let '(st', x) := dec_single k num st v in (st', set_slot t slot x)
  | DMsgPtr slot num idx =>
      let '(st', v') :=
          dec_message F num
            (fun c (v : val) =>
               let m := match v with VMsg (Some m) => m | _ => zero_msgv idx end in   (* if nil { new } *)
               let '(c', m') := rec idx c m in (c', VMsg (Some m')))
            st (slot_get (fst t) slot) in
      (st', set_slot t slot v')
  | DMsgRepPtr slot num idx =>
      let '(st', l) :=
          dec_repeated_message F num
            (fun c (l : list val) =>
               let '(c', m') := loop F (rec idx) c (zero_msgv idx) in
               (c', l ++ [VMsg (Some m')]))
            st (as_list (slot_get (fst t) slot)) in
      (st', set_slot t slot (VList l))
  | DMsgPresent slot num idx =>
      let '(st', v') :=
          dec_message F num
            (fun c (v : val) =>
               let m := match v with VEmb fs u => (fs, u) | _ => zero_msgv idx end in
               let '(c', m') := rec idx c m in (c', VEmb (fst m') (snd m')))
            st (slot_get (fst t) slot) in
      (st', set_slot t slot v')
  | DMsgRepVal slot num idx =>
      let '(st', l) :=
          dec_repeated_message F num
            (fun c (l : list val) =>
               let '(c', m') := loop F (rec idx) c (zero_msgv idx) in
               (c', l ++ [VEmb (fst m') (snd m')]))
            st (as_list (slot_get (fst t) slot)) in
      (st', set_slot t slot (VList l))
  | DEnum slot num =>
      let '(st', x) := dec_single KInt32 num st (slot_get (fst t) slot) in (st', set_slot t slot x)
  | DRepEnum slot num =>
      let '(st', l) := dec_repeated_enum F num st (as_list (slot_get (fst t) slot)) in
      (st', set_slot t slot (VList l))
  | DCast c ptr rep slot num =>
      let v := slot_get (fst t) slot in
      match rep, ptr with
      | false, false => let '(st', x) := dec_cast_elem c num st v in (st', set_slot t slot x)
      | false, true =>
          if pf st =? num then
            let cur := match v with VOpt (Some x) => x | _ => cast_zero c end in    (* if nil { new } *)
            let '(st', x) := dec_cast_elem c num st cur in (st', set_slot t slot (VOpt (Some x)))
          else (st, t)
      | true, true =>
          let '(st', l) := while_pending F num
                (fun c0 l => let '(c1, x) := dec_cast_elem c num c0 (cast_zero c) in (c1, l ++ [VOpt (Some x)]))
                st (as_list v) in
          (st', set_slot t slot (VList l))
      | true, false =>
          let '(st', l) := while_pending F num
                (fun c0 l => let '(c1, x) := dec_cast_elem c num c0 (cast_zero c) in (c1, l ++ [x]))
                st (as_list v) in
          (st', set_slot t slot (VList l))
      end
  | DOpaque _ _ => (fail 0 ECustom st, t)
  | DOneof slot num siblings inner =>
      if pf st =? num then
        (* select this member: reuse the wrapper if already selected, else a fresh one; siblings unselected *)
        let cleared := fold_left (fun fs sib =>
                          set_nth fs sib (match slot_get fs sib with VMsg _ => VMsg None | _ => VOpt None end))
                        siblings (fst t) in
        let t0 : msgv := (cleared, snd t) in
        match inner with
        | DScalar k _ _ _ _ =>
            let cur := match slot_get cleared slot with VOpt (Some x) => x | _ => zero_scalar k end in
            let '(st', x) := dec_single k num st cur in (st', set_slot t0 slot (VOpt (Some x)))
        | DEnum _ _ =>
            let cur := match slot_get cleared slot with VOpt (Some x) => x | _ => VInt 0 end in
            let '(st', x) := dec_single KInt32 num st cur in (st', set_slot t0 slot (VOpt (Some x)))
        | DCast c _ _ _ _ =>
            let cur := match slot_get cleared slot with VOpt (Some x) => x | _ => cast_zero c end in
            let '(st', x) := dec_cast_elem c num st cur in (st', set_slot t0 slot (VOpt (Some x)))
        | DMsgPtr _ _ idx =>
            let '(st', v') :=
                dec_message F num
                  (fun c (v : val) =>
                     let m := match v with VMsg (Some m) => m | _ => zero_msgv idx end in
                     let '(c', m') := rec idx c m in (c', VMsg (Some m')))
                  st (slot_get cleared slot) in
            (st', set_slot t0 slot v')
        | DMsgPresent _ _ idx =>
            (* the wrapper holds the message by value: c.PresentMessage(num, m.F.Decode) on the (new or reused) wrapper *)
            let '(st', v') :=
                dec_message F num
                  (fun c (v : val) =>
                     let m := match v with VOpt (Some (VEmb fs1 u1)) => (fs1, u1) | _ => zero_msgv idx end in
                     let '(c', m') := rec idx c m in (c', VOpt (Some (VEmb (fst m') (snd m')))))
                  st (slot_get cleared slot) in
            (st', set_slot t0 slot v')
        | _ => (fail 0 ECustom st, t0)
        end
      else (st, t)
  | DUnrec mask =>
      let '(st', out) := dec_unrecognized F mask st (snd t) in (st', (fst t, out))
  end.

(* Every emitted statement group starts with (or is) a test of the pending field; when the test
   fails the statement leaves the message untouched. *)
Definition dec_op (op : dop) (st : dstate) (t : msgv) : dstate * msgv :=
  if op_match op st then dec_op_run op st t else (st, t).

Definition dec_body (ops : list dop) : @body msgv :=
  fun st t => fold_left (fun acc op => dec_op op (fst acc) (snd acc)) ops (st, t).
End Dec.

(* the Decode method of message idx; fuel bounds the nesting depth (<= input length) *)
Fixpoint dec_msg (fuel : nat) (progs : list prog) (F : nat) (idx : nat) : @body msgv :=
  match fuel with
  | O => fun st t => (fail 0 EStack st, t)
  | S f =>
      match nth_error progs idx with
      | None => fun st t => (fail 0 EStack st, t)
      | Some p => dec_body progs F (dec_msg f progs F) (p_dec p)
      end
  end.

(* picobuf.Unmarshal(data, msg): dec.Loop(msg.Decode) with the initial nextField(0) *)
Definition pico_unmarshal (progs : list prog) (idx : nat) (data : bytes) (m0 : msgv) : option (Z * ecls) * msgv :=
  let st0 := next_field 0 {| pf := 0; pw := 0; buf := data; err := None |} in
  let F := S (S (S (length data))) in
  let '(st, m) := loop F (dec_msg F progs F idx) st0 m0 in
  (err st, m).
