(* Program-level encoder theorem: running an emitted Encode program on a well-typed value
   never panics and appends exactly the bytes of the pure specification sp_msg, which is built
   from the reference building blocks only. Unbounded in schema, value, depth and size. *)
From Coq Require Import List ZArith Lia Bool Arith.
From Pico Require Import Base.Res Base.ListX Base.Mach Wire.Wire Schema.Types Schema.Scalar Schema.Gen Schema.Conv
  Schema.Interp Ref.Ref Schema.EncSpec Wire.VarintProofs Wire.WireProofs Wire.FixedProofs Schema.ScalarProofs
  Enc.Enc Enc.EncProofs.
Import ListNotations.
Open Scope Z_scope.

Lemma rfold_app {A} (f : A -> bytes -> result bytes) (g : A -> bytes) l :
  (forall x b, In x l -> f x b = Ok (b ++ g x)) -> forall b, rfold f l b = Ok (b ++ flat_map g l).
Proof.
  induction l as [|x l IH]; intros H b; cbn [rfold flat_map]; [rewrite app_nil_r; reflexivity|].
  rewrite H by (left; reflexivity). cbn [bind].
  rewrite IH by (intros y b' Hy; apply H; right; exact Hy). rewrite <- app_assoc. reflexivity.
Qed.

Lemma flat_map_ext_in {A B} (f g : A -> list B) l : (forall x, In x l -> f x = g x) -> flat_map f l = flat_map g l.
Proof.
  induction l as [|x l IH]; intros H; cbn [flat_map]; [reflexivity|].
  rewrite H by (left; reflexivity). rewrite IH by (intros y Hy; apply H; right; exact Hy). reflexivity.
Qed.

Lemma lenb_ok p : lenb p = true -> len_ok p.
Proof. unfold lenb, len_ok. intros H. apply Z.ltb_lt in H. exact H. Qed.

Lemma enc_single_sp k always num v buf : scalar_ok k v = true -> valid_number num = true ->
  enc_single k always num v buf = buf ++ sp_scalar k always num v.
Proof. intros. unfold sp_scalar. apply enc_single_spec; assumption. Qed.

(* payload of one element, by wire class *)
Lemma payload_varint k x : wire_of k = 0 -> scalar_ok k x = true -> append_varint (enc_tr k (as_int x)) = spec_payload k x.
Proof. intros Hw Hok. rewrite <- enc_payload_spec by exact Hok. unfold enc_payload. rewrite Hw. reflexivity. Qed.
Lemma payload_fixed32 k x : wire_of k = 5 -> scalar_ok k x = true -> append_fixed32 (enc_tr k (as_int x)) = spec_payload k x.
Proof. intros Hw Hok. rewrite <- enc_payload_spec by exact Hok. unfold enc_payload. rewrite Hw. reflexivity. Qed.
Lemma payload_fixed64 k x : wire_of k = 1 -> scalar_ok k x = true -> append_fixed64 (enc_tr k (as_int x)) = spec_payload k x.
Proof. intros Hw Hok. rewrite <- enc_payload_spec by exact Hok. unfold enc_payload. rewrite Hw. reflexivity. Qed.
Lemma payload_bytes k x : wire_of k = 2 -> scalar_ok k x = true -> append_bytes (as_bytes x) = spec_payload k x.
Proof. intros Hw Hok. rewrite <- enc_payload_spec by exact Hok. unfold enc_payload. rewrite Hw. reflexivity. Qed.

Lemma wire_cases k : wire_of k = 0 \/ wire_of k = 5 \/ wire_of k = 1 \/ wire_of k = 2.
Proof. destruct k; cbn; unfold VarintType, Fixed32Type, Fixed64Type, BytesType; auto. Qed.

Lemma spec_payload_fixed_len k x : (wire_of k = 5 -> length (spec_payload k x) = 4%nat) /\ (wire_of k = 1 -> length (spec_payload k x) = 8%nat).
Proof. destruct k; cbn; unfold VarintType, Fixed32Type, Fixed64Type, BytesType; split; intros H; try discriminate H; reflexivity. Qed.

Lemma flat_map_length_const {A} (f : A -> bytes) n l : (forall x, length (f x) = n) -> length (flat_map f l) = (length l * n)%nat.
Proof. intros H. induction l as [|x l IH]; cbn [flat_map length]; [reflexivity|]. rewrite app_length, H, IH. lia. Qed.

Lemma forallb_In {A} (p : A -> bool) l x : forallb p l = true -> In x l -> p x = true.
Proof. intros H Hx. rewrite forallb_forall in H. apply H, Hx. Qed.

(* [Always]RepeatedK *)
Theorem enc_repeated_sp k always num vs buf :
  forallb (scalar_ok k) vs = true -> valid_number num = true -> lenb (flat_map (spec_payload k) vs) = true ->
  enc_repeated k always num vs buf = Ok (buf ++ sp_repeated k always num vs).
Proof.
  intros Hok Hnum Hlen. unfold enc_repeated, sp_repeated.
  destruct (negb always && Nat.eqb (length vs) 0); [rewrite app_nil_r; reflexivity|].
  pose proof (lenb_ok _ Hlen) as Hl.
  destruct (wire_cases k) as [Hw|[Hw|[Hw|Hw]]]; rewrite Hw.
  - (* varint *)
    assert (Hb : is_bytes_kind k = false) by (destruct k; try reflexivity; discriminate Hw).
    rewrite Hb.
    destruct (kind_eqb k KBool) eqn:Ek.
    + assert (k = KBool) by (destruct k; try discriminate Ek; reflexivity). subst k.
      unfold spec_ld. rewrite tag2_spec by exact Hnum.
      assert (Hm : map (fun x => if as_int x =? 0 then 0 else 1) vs = flat_map (spec_payload KBool) vs).
      { clear. induction vs as [|x l IH]; cbn [map flat_map]; [reflexivity|]. rewrite IH. reflexivity. }
      rewrite Hm. rewrite (flat_map_length_const (spec_payload KBool) 1 vs) by reflexivity. rewrite Nat.mul_1_r.
      rewrite append_varint_spec; [reflexivity|].
      unfold len_ok in Hl. rewrite (flat_map_length_const (spec_payload KBool) 1 vs), Nat.mul_1_r in Hl by reflexivity.
      unfold u64_ok. change (2 ^ 63) with 9223372036854775808 in Hl. change (2 ^ 64) with 18446744073709551616. lia.
    + assert (Hnb : match k with KBool => False | _ => True end) by (destruct k; try exact I; discriminate Ek).
      replace (match k with KBool => _ | _ => always_any_bytes num (fun b => Ok (b ++ flat_map (fun x => append_varint (enc_tr k (as_int x))) vs)) buf end)
        with (always_any_bytes num (fun b => Ok (b ++ flat_map (fun x => append_varint (enc_tr k (as_int x))) vs)) buf)
        by (destruct k; try reflexivity; contradiction).
      rewrite (flat_map_ext_in _ (spec_payload k) vs) by (intros x Hx; apply payload_varint; [exact Hw|exact (forallb_In _ _ _ Hok Hx)]).
      apply always_any_bytes_spec; [exact Hnum|exact Hl|reflexivity].
  - (* fixed32 *)
    assert (Hb : is_bytes_kind k = false) by (destruct k; try reflexivity; discriminate Hw).
    rewrite Hb. unfold spec_ld. rewrite tag2_spec by exact Hnum.
    rewrite (flat_map_ext_in _ (spec_payload k) vs) by (intros x Hx; apply payload_fixed32; [exact Hw|exact (forallb_In _ _ _ Hok Hx)]).
    assert (Hlen4 : length (flat_map (spec_payload k) vs) = (length vs * 4)%nat)
      by (apply flat_map_length_const; intros x; apply (proj1 (spec_payload_fixed_len k x)); exact Hw).
    unfold len_ok in Hl. rewrite Hlen4 in *. change (2 ^ 63) with 9223372036854775808 in Hl.
    replace (u64 (Z.of_nat (length vs) * 4)) with (Z.of_nat (length vs * 4)).
    + rewrite append_varint_spec; [reflexivity|]. unfold u64_ok. change (2 ^ 64) with 18446744073709551616. lia.
    + unfold u64, u. change (2 ^ 64) with 18446744073709551616. rewrite Z.mod_small by lia. lia.
  - (* fixed64 *)
    assert (Hb : is_bytes_kind k = false) by (destruct k; try reflexivity; discriminate Hw).
    rewrite Hb. unfold spec_ld. rewrite tag2_spec by exact Hnum.
    rewrite (flat_map_ext_in _ (spec_payload k) vs) by (intros x Hx; apply payload_fixed64; [exact Hw|exact (forallb_In _ _ _ Hok Hx)]).
    assert (Hlen8 : length (flat_map (spec_payload k) vs) = (length vs * 8)%nat)
      by (apply flat_map_length_const; intros x; apply (proj2 (spec_payload_fixed_len k x)); exact Hw).
    unfold len_ok in Hl. rewrite Hlen8 in *. change (2 ^ 63) with 9223372036854775808 in Hl.
    replace (u64 (Z.of_nat (length vs) * 8)) with (Z.of_nat (length vs * 8)).
    + rewrite append_varint_spec; [reflexivity|]. unfold u64_ok. change (2 ^ 64) with 18446744073709551616. lia.
    + unfold u64, u. change (2 ^ 64) with 18446744073709551616. rewrite Z.mod_small by lia. lia.
  - (* string / bytes: one record per element *)
    assert (Hb : is_bytes_kind k = true) by (destruct k; try reflexivity; discriminate Hw).
    rewrite Hb. f_equal. f_equal. apply flat_map_ext_in. intros x Hx.
    unfold spec_field. rewrite Hw. rewrite append_tag_spec; [|apply valid_number_range, Hnum|lia].
    f_equal. apply payload_bytes; [exact Hw|exact (forallb_In _ _ _ Hok Hx)].
Qed.

(* ---- picoconv casts and map codecs *)
Lemma in_sb_64 z : in_sb 64 z = true -> scalar_ok KInt64 (VInt z) = true.
Proof. intros H. exact H. Qed.

Lemma enc_sec_nanos_sp sec nanos b : scalar_ok KInt64 (VInt sec) = true -> scalar_ok KInt32 (VInt nanos) = true ->
  enc_sec_nanos sec nanos b = Ok (b ++ sp_sec_nanos sec nanos, true).
Proof.
  intros H1 H2. unfold enc_sec_nanos, sp_sec_nanos.
  rewrite (enc_single_sp KInt64 false 1 (VInt sec) b H1 eq_refl).
  rewrite (enc_single_sp KInt32 false 2 (VInt nanos) _ H2 eq_refl). rewrite <- app_assoc. reflexivity.
Qed.

Lemma s32_in_range x : scalar_ok KInt32 (VInt (s32 x)) = true.
Proof.
  cbn [scalar_ok]. unfold in_sb, s32, s. change (2 ^ (32 - 1)) with 2147483648. change (2 ^ 32) with 4294967296.
  pose proof (Z.mod_pos_bound (x + 2147483648) 4294967296 ltac:(lia)).
  apply andb_true_iff. split; [apply Z.leb_le|apply Z.ltb_lt]; lia.
Qed.

Ltac Zify.zify_post_hook ::= Z.to_euclidean_division_equations.

Lemma quot_in_range d : in_sb 64 d = true -> scalar_ok KInt64 (VInt (Z.quot d second)) = true.
Proof.
  intros H. apply in_sb_spec in H. change (2 ^ (64 - 1)) with 9223372036854775808 in H. cbn [scalar_ok]. unfold in_sb, second.
  change (2 ^ (64 - 1)) with 9223372036854775808.
  apply andb_true_iff. split; [apply Z.leb_le|apply Z.ltb_lt]; lia.
Qed.

Lemma spec_varint_len_le v : (length (spec_varint v) <= 10)%nat.
Proof. unfold spec_varint. apply varint7_length_le. Qed.

Lemma sp_sec_nanos_len sec nanos : len_ok (sp_sec_nanos sec nanos).
Proof.
  unfold len_ok, sp_sec_nanos, sp_scalar, spec_field. cbn [negb andb wire_of].
  change (spec_tag 1 VarintType) with [8]. change (spec_tag 2 VarintType) with [16].
  cbn [spec_payload as_int].
  pose proof (spec_varint_len_le (sec mod 2 ^ 64)). pose proof (spec_varint_len_le (nanos mod 2 ^ 64)).
  destruct (spec_default KInt64 (VInt sec)); destruct (spec_default KInt32 (VInt nanos));
    rewrite ?app_length; cbn [length app]; rewrite ?app_length; cbn [length];
    change (2 ^ 63) with 9223372036854775808; lia.
Qed.

Theorem enc_cast_elem_sp c num v buf :
  cast_elem_ok c v = true -> valid_number num = true ->
  (match c, v with
   | CastMap kk vk, VMap l => forallb (fun e => lenb (sp_scalar kk false 1 (fst e) ++ sp_scalar vk false 2 (snd e))) l
   | _, _ => true end) = true ->
  enc_cast_elem c num v buf = Ok (buf ++ sp_cast_elem c num v).
Proof.
  intros Hok Hnum Hlens.
  destruct c as [| |kk vk]; destruct v as [z|bb|o|l|o|fs u|l|sec nsec|d]; try discriminate Hok;
    cbn [enc_cast_elem sp_cast_elem cast_elem_ok] in *.
  - (* Timestamp *)
    unfold enc_timestamp. destruct (time_is_zero sec nsec); [rewrite app_nil_r; reflexivity|].
    apply andb_true_iff in Hok. destruct Hok as [Hok _]. apply andb_true_iff in Hok. destruct Hok as [Hs _].
    rewrite (enc_message_spec num _ buf (sp_sec_nanos sec (s32 nsec)) true); [reflexivity|exact Hnum|apply sp_sec_nanos_len|].
    intros b. apply enc_sec_nanos_sp; [exact Hs|apply s32_in_range].
  - (* Duration *)
    unfold enc_duration. unfold dur_split.
    rewrite (enc_message_spec num _ buf (sp_sec_nanos (Z.quot d second) (s32 (d - Z.quot d second * second))) true);
      [reflexivity|exact Hnum|apply sp_sec_nanos_len|].
    intros b. apply enc_sec_nanos_sp; [apply quot_in_range, Hok|apply s32_in_range].
  - (* map codec *)
    unfold enc_map. apply rfold_app. intros e b He.
    pose proof (forallb_In _ _ _ Hok He) as Hek. apply andb_true_iff in Hek. destruct Hek as [Hk Hv].
    pose proof (forallb_In _ _ _ Hlens He) as Hel.
    apply always_any_bytes_spec; [exact Hnum|apply lenb_ok, Hel|].
    intros b0. rewrite (enc_single_sp kk false 1 (fst e) b0 Hk eq_refl).
    rewrite (enc_single_sp vk false 2 (snd e) _ Hv eq_refl). rewrite <- app_assoc. reflexivity.
Qed.

Lemma u64_is_ok z : u64_ok (u64 z).
Proof. unfold u64_ok, u64, u. apply Z.mod_pos_bound. change (2 ^ 64) with 18446744073709551616. lia. Qed.

Lemma flat_map_map {A B C} (f : B -> list C) (g : A -> B) l : flat_map f (map g l) = flat_map (fun x => f (g x)) l.
Proof. induction l as [|x l IH]; cbn [map flat_map]; [reflexivity|rewrite IH; reflexivity]. Qed.

Lemma enc_repeated_enum_sp num zs buf : valid_number num = true ->
  lenb (flat_map (fun z => spec_varint (u64 z)) zs) = true ->
  enc_repeated_enum num zs buf = Ok (buf ++ match zs with [] => [] | _ => spec_ld num (flat_map (fun z => spec_varint (u64 z)) zs) end).
Proof.
  intros Hn Hl. unfold enc_repeated_enum. destruct zs as [|z zs]; [rewrite app_nil_r; reflexivity|].
  apply always_any_bytes_spec; [assumption|apply lenb_ok; assumption|].
  intros b. f_equal. f_equal. apply flat_map_ext_in. intros y _. apply append_varint_spec, u64_is_ok.
Qed.

Section OpSpec.
Variable rec : nat -> option msgv -> bytes -> result (bytes * bool).
Variable R : nat -> option msgv -> bytes * bool.
Variable sub_ok : nat -> option msgv -> bool.
Hypothesis Hrec : forall idx m b, sub_ok idx m = true -> rec idx m b = Ok (b ++ fst (R idx m), snd (R idx m)).

Ltac split_and H := repeat match type of H with
  | (_ && _) = true => let A := fresh "A" in let B := fresh "B" in apply andb_true_iff in H; destruct H as [A B]; try split_and A; try split_and B
  end.

Lemma one_cast_sp c (ptr : bool) num x b :
  valid_number num = true ->
  (if ptr then match x with VOpt (Some y) => cast_elem_ok c y | VOpt None => true | _ => false end else cast_elem_ok c x) = true ->
  (match c, (if ptr then match x with VOpt (Some y) => y | _ => x end else x) with
   | CastMap kk vk, VMap l => forallb (fun e => lenb (sp_scalar kk false 1 (fst e) ++ sp_scalar vk false 2 (snd e))) l
   | _, _ => true end) = true ->
  (if ptr then match x with VOpt (Some y) => enc_cast_elem c num y b | _ => Ok b end else enc_cast_elem c num x b) =
  Ok (b ++ (if ptr then match x with VOpt (Some y) => sp_cast_elem c num y | _ => [] end else sp_cast_elem c num x)).
Proof.
  intros Hn Hok Hl. destruct ptr.
  - destruct x as [| |[y|]| | | | | |]; try discriminate Hok; [|rewrite app_nil_r; reflexivity].
    apply enc_cast_elem_sp; assumption.
  - apply enc_cast_elem_sp; assumption.
Qed.

Theorem enc_op_spec fs un op buf : op_ok R sub_ok fs op = true ->
  enc_op rec fs un op buf = Ok (buf ++ sp_op R fs un op).
Proof.
  intros Hok. destruct op as [k always rep ptr slot num|slot num idx|slot num idx|slot num idx|slot num idx|slot num idx|always slot num|slot num|c ptr rep slot num|slot num|slot inner|];
    cbn [enc_op sp_op op_ok] in *.
  - (* EScalar *)
    apply andb_true_iff in Hok. destruct Hok as [Hn Hv]. destruct rep.
    + destruct (slot_get fs slot) as [| | |l| | | | |]; try discriminate Hv. cbn [as_list].
      apply andb_true_iff in Hv. destruct Hv as [Hall Hlen]. apply enc_repeated_sp; assumption.
    + destruct ptr.
      * destruct (slot_get fs slot) as [| |[x|]| | | | | |]; try discriminate Hv; [|rewrite app_nil_r; reflexivity].
        f_equal. apply enc_single_sp; assumption.
      * f_equal. apply enc_single_sp; assumption.
  - (* EMsgPtr *)
    split_and Hok. set (m := opt_of_msg (slot_get fs slot)) in *.
    rewrite (enc_message_spec num _ buf (fst (R idx m)) (snd (R idx m))); [destruct (snd (R idx m)); [reflexivity|rewrite app_nil_r; reflexivity]|assumption|apply lenb_ok; assumption|].
    intros b. apply Hrec. assumption.
  - (* EMsgRepPtr *)
    apply andb_true_iff in Hok. destruct Hok as [Hn Hv].
    destruct (slot_get fs slot) as [| | |l| | | | |]; try discriminate Hv. cbn [as_list].
    apply rfold_app. intros x b Hx. pose proof (forallb_In _ _ _ Hv Hx) as Hx'. apply andb_true_iff in Hx'. destruct Hx' as [Hx' _]. apply andb_true_iff in Hx'. destruct Hx' as [Hs Hl].
    apply (enc_always_message_spec num _ b (fst (R idx (opt_of_msg x))) (snd (R idx (opt_of_msg x)))); [assumption|apply lenb_ok; assumption|].
    intros b0. apply Hrec. assumption.
  - (* EMsgPresent *)
    split_and Hok. set (m := opt_of_msg (slot_get fs slot)) in *.
    rewrite (enc_present_message_spec num _ buf (fst (R idx m)) (snd (R idx m))); [destruct (fst (R idx m)); [rewrite app_nil_r; reflexivity|reflexivity]|assumption|apply lenb_ok; assumption|].
    intros b. apply Hrec. assumption.
  - (* EMsgRepVal *)
    apply andb_true_iff in Hok. destruct Hok as [Hn Hv].
    destruct (slot_get fs slot) as [| | |l| | | | |]; try discriminate Hv. cbn [as_list].
    apply rfold_app. intros x b Hx. pose proof (forallb_In _ _ _ Hv Hx) as Hx'. apply andb_true_iff in Hx'. destruct Hx' as [Hx' _]. apply andb_true_iff in Hx'. destruct Hx' as [Hs Hl].
    apply (enc_always_message_spec num _ b (fst (R idx (opt_of_msg x))) (snd (R idx (opt_of_msg x)))); [assumption|apply lenb_ok; assumption|].
    intros b0. apply Hrec. assumption.
  - (* EMsgAlwaysVal *)
    split_and Hok. set (m := opt_of_msg (slot_get fs slot)) in *.
    apply (enc_always_message_spec num _ buf (fst (R idx m)) (snd (R idx m))); [assumption|apply lenb_ok; assumption|].
    intros b0. apply Hrec. assumption.
  - (* EEnum *)
    apply andb_true_iff in Hok. destruct Hok as [Hn Hv]. f_equal. apply enc_single_sp; assumption.
  - (* ERepEnum *)
    apply andb_true_iff in Hok. destruct Hok as [Hn Hv].
    destruct (slot_get fs slot) as [| | |l| | | | |]; try discriminate Hv. cbn [as_list].
    apply andb_true_iff in Hv. destruct Hv as [Hall Hlen].
    rewrite (enc_repeated_enum_sp num (map as_int l) buf Hn) by (rewrite flat_map_map; exact Hlen).
    f_equal. f_equal. destruct l as [|x l]; [reflexivity|]. cbn [map]. rewrite <- (map_cons as_int x l), flat_map_map. reflexivity.
  - (* ECast *)
    apply andb_true_iff in Hok. destruct Hok as [Hn Hv]. destruct rep.
    + destruct (slot_get fs slot) as [| | |l| | | | |]; try discriminate Hv. cbn [as_list].
      apply andb_true_iff in Hv. destruct Hv as [Hall Hlens].
      apply rfold_app. intros x b Hx. apply one_cast_sp; [assumption|exact (forallb_In _ _ _ Hall Hx)|exact (forallb_In _ _ _ Hlens Hx)].
    + apply andb_true_iff in Hv. destruct Hv as [Hone Hlens]. apply one_cast_sp; assumption.
  - discriminate Hok.
  - (* EOneof *)
    destruct (slot_get fs slot) as [| |[x|]| |[m|]| | | |]; try (rewrite app_nil_r; reflexivity);
      destruct inner as [k always rep ptr sl2 num|sl2 num idx| | | |sl2 num idx|always sl2 num| |c ptr rep sl2 num| | |]; try (rewrite app_nil_r; reflexivity).
    + apply andb_true_iff in Hok. destruct Hok as [Hn Hv]. f_equal. apply enc_single_sp; assumption.
    + destruct x as [| | | | |fs1 u1| | |]; try (rewrite app_nil_r; reflexivity). split_and Hok.
      apply (enc_always_message_spec num _ buf (fst (R idx (Some (fs1, u1)))) (snd (R idx (Some (fs1, u1))))); [assumption|apply lenb_ok; assumption|].
      intros b0. apply Hrec. assumption.
    + apply andb_true_iff in Hok. destruct Hok as [Hn Hv]. f_equal. apply enc_single_sp; assumption.
    + split_and Hok. apply enc_cast_elem_sp; assumption.
    + split_and Hok.
      rewrite (enc_message_spec num _ buf (fst (R idx (Some m))) (snd (R idx (Some m)))); [destruct (snd (R idx (Some m))); [reflexivity|rewrite app_nil_r; reflexivity]|assumption|apply lenb_ok; assumption|].
      intros b. apply Hrec. assumption.
  - reflexivity.
Qed.
End OpSpec.

(* ---- whole messages, any nesting depth *)
Theorem enc_msg_spec : forall fuel progs idx m buf,
  msg_ok fuel progs idx m = true ->
  enc_msg fuel progs idx m buf = Ok (buf ++ fst (sp_msg fuel progs idx m), snd (sp_msg fuel progs idx m)).
Proof.
  induction fuel as [|f IH]; intros progs idx m buf Hok; [discriminate Hok|].
  cbn [enc_msg sp_msg msg_ok] in *.
  destruct m as [[fs un]|]; [|cbn [fst snd]; rewrite app_nil_r; reflexivity].
  destruct (nth_error progs idx) as [p|]; [|discriminate Hok].
  cbn [fst snd].
  rewrite (rfold_app (enc_op (enc_msg f progs) fs un) (sp_op (sp_msg f progs) fs un) (p_enc p)); [reflexivity|].
  intros op b Hop. apply (enc_op_spec (enc_msg f progs) (sp_msg f progs) (msg_ok f progs)).
  - intros i m0 b0 Hm. apply IH. exact Hm.
  - exact (forallb_In _ _ _ Hok Hop).
Qed.

(* picobuf.Marshal on a well-typed message never panics and returns exactly the specified
   bytes, whatever the program, the value, the nesting depth and the payload sizes are *)
Corollary pico_marshal_spec fuel progs idx m :
  msg_ok fuel progs idx (Some m) = true ->
  pico_marshal fuel progs idx m = Ok (fst (sp_msg fuel progs idx (Some m))).
Proof. intros H. unfold pico_marshal. rewrite (enc_msg_spec fuel progs idx (Some m) [] H). reflexivity. Qed.

(* what Encode appends does not depend on what the buffer already holds *)
Corollary enc_append_only fuel progs idx m buf :
  msg_ok fuel progs idx m = true ->
  enc_msg fuel progs idx m buf =
  match enc_msg fuel progs idx m [] with Ok (b, ok) => Ok (buf ++ b, ok) | Panic => Panic end.
Proof. intros H. rewrite (enc_msg_spec _ _ _ _ buf H), (enc_msg_spec _ _ _ _ [] H). reflexivity. Qed.
