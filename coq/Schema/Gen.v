(* Model of protoc-gen-pico: fieldInfo and the statements emitted by
   genFieldEncode / genFieldDecode, as programs over slots. *)
From Coq Require Import List ZArith Bool Arith.
From Pico Require Import Base.Res Base.Mach Wire.Wire Schema.Types Schema.Scalar.
Import ListNotations.
Open Scope Z_scope.

Inductive gkind := GInternal (k : kind) | GMessage (idx : nat) | GEnum | GMapUnsupported | GCustom | GCast (c : cast) | GCastOpaque.

Record info := { i_kind : gkind; i_pointer : bool; i_repeated : bool; i_oneof : bool }.

Definition valid_map_key (k : kind) : bool :=
  match k with KFloat | KDouble | KBytes => false | _ => true end.

Definition target_always_present (s : schema) (t : ftype) : bool :=
  match t with
  | TMsg idx => match nth_error s idx with Some m => m_always_present m | None => false end
  | _ => false
  end.

(* fieldInfo (protoc-gen-pico/main.go) *)
Definition field_info (s : schema) (f : fdesc) : info :=
  let is_oneof := match foneof f with Some _ => true | None => false end in
  let optional_kw := match flabel f with LOptional => true | _ => false end in
  let repeated := match flabel f, fty f with LRepeated, TMap _ _ => false | LRepeated, TMapOther => false | LRepeated, _ => true | _, _ => false end in
  (* desc.HasPresence() || desc.HasOptionalKeyword() *)
  let has_presence :=
      match flabel f with
      | LRepeated => false
      | _ => is_oneof || optional_kw || (match fty f with TMsg _ => true | _ => false end)
      end in
  let '(k0, p0) :=
      match fty f with
      | TScalar k => (GInternal k, if is_bytes_kind k then optional_kw else has_presence)   (* string/bytes: HasOptionalKeyword only *)
      | TEnum => (GEnum, has_presence)
      | TMap kk vk => (GCast (CastMap kk vk), false)
      | TMapOther => (GMapUnsupported, false)
      | TMsg idx => (GMessage idx, true)
      end in
  (* only messages in oneof should be pointers, by default *)
  let p1 := if p0 && negb (match k0 with GMessage _ => true | _ => false end) && is_oneof then false else p0 in
  let p2 := if target_always_present s (fty f) then false else p1 in
  let p3 := if f_always_present f then false else p2 in
  let k1 := match f_custom f with
            | CNone => k0
            | CTimestamp => GCast CastTs
            | CDuration => GCast CastDur
            | COpaque => GCustom
            end in
  {| i_kind := k1; i_pointer := p3; i_repeated := repeated; i_oneof := is_oneof |}.

Inductive gres (A : Type) := GOk (a : A) | GError (reason : nat).
Arguments GOk {A} a. Arguments GError {A} reason.
(* reasons: 1 optional/pointer enum, 2 unsupported map, 3 capture with field >= 64,
   4 pointer+repeated internal, 5 bad index *)

(* genFieldEncode *)
Definition gen_field_encode (s : schema) (slot : nat) (f : fdesc) : gres eop :=
  let i := field_info s f in
  let always := i_oneof i in
  let wrap (e : eop) := if i_oneof i then EOneof slot e else e in
  match i_kind i with
  | GCast c => GOk (wrap (ECast c (i_pointer i) (i_repeated i) slot (fnum f)))
  | GCastOpaque | GCustom => GOk (wrap (EOpaque slot (fnum f)))
  | GInternal k =>
      if i_repeated i && i_pointer i then GError 4
      else GOk (wrap (EScalar k (always || i_pointer i) (i_repeated i) (i_pointer i) slot (fnum f)))
  | GMessage idx =>
      GOk (wrap (match i_pointer i, i_repeated i with
                 | true, false => EMsgPtr slot (fnum f) idx
                 | true, true => EMsgRepPtr slot (fnum f) idx
                 | false, false => if always then EMsgAlwaysVal slot (fnum f) idx else EMsgPresent slot (fnum f) idx
                 | false, true => EMsgRepVal slot (fnum f) idx
                 end))
  | GEnum =>
      if i_pointer i then GError 1
      else GOk (wrap (if i_repeated i then ERepEnum slot (fnum f) else EEnum always slot (fnum f)))
  | GMapUnsupported => GError 2
  end.

(* genFieldDecode *)
Definition gen_field_decode (s : schema) (siblings : list nat) (slot : nat) (f : fdesc) : gres dop :=
  let i := field_info s f in
  let wrap (d : dop) := if i_oneof i then DOneof slot (fnum f) siblings d else d in
  match i_kind i with
  | GCast c => GOk (wrap (DCast c (i_pointer i) (i_repeated i) slot (fnum f)))
  | GCastOpaque | GCustom => GOk (wrap (DOpaque slot (fnum f)))
  | GInternal k =>
      if i_repeated i && i_pointer i then GError 4
      else GOk (wrap (DScalar k (i_repeated i) (i_pointer i) slot (fnum f)))
  | GMessage idx =>
      GOk (wrap (match i_pointer i, i_repeated i with
                 | true, false => DMsgPtr slot (fnum f) idx
                 | true, true => DMsgRepPtr slot (fnum f) idx
                 | false, false => DMsgPresent slot (fnum f) idx
                 | false, true => DMsgRepVal slot (fnum f) idx
                 end))
  | GEnum =>
      if i_pointer i then GError 1
      else GOk (wrap (if i_repeated i then DRepEnum slot (fnum f) else DEnum slot (fnum f)))
  | GMapUnsupported => GError 2
  end.

(* fields sorted by number (sort.Slice on Desc.Number(); numbers are distinct) *)
Fixpoint insert_by_num (x : nat * fdesc) (l : list (nat * fdesc)) : list (nat * fdesc) :=
  match l with
  | [] => [x]
  | y :: t => if fnum (snd x) <? fnum (snd y) then x :: l else y :: insert_by_num x t
  end.
Definition sort_by_num (l : list (nat * fdesc)) : list (nat * fdesc) := fold_right insert_by_num [] l.

Fixpoint number_from {A} (n : nat) (l : list A) : list (nat * A) :=
  match l with [] => [] | x :: t => (n, x) :: number_from (S n) t end.

Fixpoint gmap {A B} (f : A -> gres B) (l : list A) : gres (list B) :=
  match l with
  | [] => GOk []
  | x :: t => match f x with
              | GError r => GError r
              | GOk y => match gmap f t with GError r => GError r | GOk ys => GOk (y :: ys) end
              end
  end.

(* fieldsBitSet *)
Definition fields_bitset (m : mdesc) : gres Z :=
  if existsb (fun f => 64 <=? fnum f) (mfields m) then GError 3
  else GOk (fold_left (fun z f => Z.lor z (Z.shiftl 1 (fnum f))) (mfields m) 0).

Definition oneof_siblings (m : mdesc) (f : fdesc) (slot : nat) : list nat :=
  match foneof f with
  | None => []
  | Some o =>
      map fst (filter (fun p => negb (Nat.eqb (fst p) slot) &&
                        match foneof (snd p) with Some o' => Nat.eqb o o' | None => false end)
                      (number_from 0 (mfields m)))
  end.

Definition gen_encode (s : schema) (m : mdesc) : gres (list eop) :=
  match gmap (fun p => gen_field_encode s (fst p) (snd p)) (sort_by_num (number_from 0 (mfields m))) with
  | GError r => GError r
  | GOk ops => GOk (if m_capture m then ops ++ [EUnrec] else ops)
  end.

Definition gen_decode (s : schema) (m : mdesc) : gres (list dop) :=
  match gmap (fun p => gen_field_decode s (oneof_siblings m (snd p) (fst p)) (fst p) (snd p))
             (sort_by_num (number_from 0 (mfields m))) with
  | GError r => GError r
  | GOk ops =>
      if m_capture m then
        match fields_bitset m with GError r => GError r | GOk z => GOk (ops ++ [DUnrec z]) end
      else GOk ops
  end.

Record prog := { p_enc : list eop; p_dec : list dop; p_zero : list val }.

(* zero value of a slot, by the Go type the generator emits *)
Fixpoint zero_slot (fuel : nat) (s : schema) (f : fdesc) : val :=
  let i := field_info s f in
  match i_kind i with
  | GCast (CastMap _ _) => VMap []
  | GCast c =>
      let z := match c with CastDur => VDur 0 | _ => VTime zero_time_sec 0 end in
      if i_repeated i then VList [] else
      if i_oneof i then VOpt None else
      if i_pointer i then VOpt None else z
  | GInternal k =>
      if i_repeated i then VList [] else
      if i_oneof i then VOpt None else
      if i_pointer i then VOpt None else zero_scalar k
  | GEnum => if i_repeated i then VList [] else if i_oneof i then VOpt None else VInt 0
  | GMessage idx =>
      if i_repeated i then VList [] else
      if i_pointer i then VMsg None else
      if i_oneof i then VOpt None else                 (* by-value member of a oneof: absent wrapper *)
      match fuel with
      | O => VEmb [] []
      | S g => match nth_error s idx with
               | Some m => VEmb (map (zero_slot g s) (mfields m)) []
               | None => VEmb [] []
               end
      end
  | _ => VBytes []
  end.

Definition zero_fields (s : schema) (m : mdesc) : list val := map (zero_slot (length s) s) (mfields m).

Definition gen_prog (s : schema) (m : mdesc) : gres prog :=
  match gen_encode s m, gen_decode s m with
  | GOk e, GOk d => GOk {| p_enc := e; p_dec := d; p_zero := zero_fields s m |}
  | GError r, _ => GError r
  | _, GError r => GError r
  end.

Definition gen_all (s : schema) : gres (list prog) := gmap (gen_prog s) s.
