(* The emitted Decode of a flat message (singular scalar fields) is, under Loop, a single-pass
   dispatch parser: first instance of the Loop theorem on generated programs. *)
From Coq Require Import List ZArith Lia Bool Arith.
From Pico Require Import Base.Res Base.Mach Wire.Wire Schema.Types Schema.Scalar Schema.Gen Schema.Conv Schema.Interp
  Dec.Dec Dec.ReaderProofs Dec.LoopEquiv Dec.LoopInst.
Import ListNotations.
Open Scope Z_scope.

Definition flat_op (f : kind * Z * nat) : dop := DScalar (fst (fst f)) false false (snd f) (snd (fst f)).

Lemma dec_op_flat progs F rec f st fs un :
  dec_op progs F rec (flat_op f) st (fs, un) =
  let '(st', x) := dec_single (fst (fst f)) (snd (fst f)) st (nth (snd f) fs (VInt 0)) in (st', (set_nth fs (snd f) x, un)).
Proof.
  unfold dec_op, flat_op. cbn [op_match dec_op_run]. unfold slot_get, set_slot. cbn [fst snd].
  destruct (Z.eqb_spec (pf st) (snd (fst f))) as [Em|Em].
  - destruct (dec_single (fst (fst f)) (snd (fst f)) st (nth (snd f) fs (VInt 0))) as [st1 x]. reflexivity.
  - rewrite dec_single_other by congruence. rewrite set_nth_same. reflexivity.
Qed.

Lemma dec_body_flat progs F rec fields : forall st fs un,
  dec_body progs F rec (map flat_op fields) st (fs, un) =
  let '(st', fs') := pass_list _ _ (flat_readers fields) st fs in (st', (fs', un)).
Proof.
  unfold dec_body, pass_list. induction fields as [|f fields IH]; intros st fs un; [reflexivity|].
  cbn [map fold_left flat_readers]. unfold step at 2. cbn [fst snd].
  rewrite dec_op_flat. cbn [rrun scalar_reader].
  destruct (dec_single (fst (fst f)) (snd (fst f)) st (nth (snd f) fs (VInt 0))) as [st1 x].
  fold (flat_readers fields). apply IH.
Qed.

Theorem flat_unmarshal_single_pass progs F rec fields st fs un n n' :
  NoDup (map (fun f => snd (fst f)) fields) ->
  Forall (fun f => valid_number (snd (fst f)) = true) fields ->
  (blen st + 3 <= n)%nat -> (blen st + 2 <= n')%nat ->
  Dec.loop n (dec_body progs F rec (map flat_op fields)) st (fs, un) =
  let '(st', fs') := loop1 _ _ pfv skip (flat_readers fields) n' st fs in (st', (fs', un)).
Proof.
  intros Hnd Hv Hn Hn'. rewrite <- (flat_loop_is_single_pass fields st fs n n' Hnd Hv Hn Hn').
  clear Hn Hn'. revert st fs. induction n as [|n IH]; intros st fs; [reflexivity|].
  cbn [Dec.loop]. rewrite dec_body_flat.
  destruct (pass_list (list val) dstate (flat_readers fields) st fs) as [st1 fs1].
  destruct (negb (valid_number (pf st1))); [reflexivity|].
  destruct (same_len (buf st1) (buf st)); apply IH.
Qed.
