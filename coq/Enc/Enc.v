(* Model of encoder.go and encoder_types.go (checked version: Go slice operations
   that can panic are in the result monad). The buffer is the list of bytes
   enc.buffer[:len]; capacity and stale bytes are modelled in Enc/CBuf.v. *)
From Coq Require Import List ZArith Bool Arith.
From Pico Require Import Base.Res Base.Mach Wire.Wire Schema.Types Schema.Scalar.
Import ListNotations.
Open Scope Z_scope.

(* copy(l[dst:], l[src:]) -- memmove semantics *)
Definition copy_within (l : bytes) (dst src : nat) : result bytes :=
  if Nat.leb dst (length l) && Nat.leb src (length l) then
    let n := Nat.min (length l - dst) (length l - src) in
    Ok (firstn dst l ++ firstn n (skipn src l) ++ skipn (dst + n) l)
  else Panic.

(* protowire.PutUvarint(l[pos:pos+k], x) *)
Definition put_uvarint_at (l : bytes) (pos k : nat) (x : Z) : result bytes :=
  if Nat.leb (pos + k) (length l) then
    let! sub := put_uvarint (firstn k (skipn pos l)) x in
    Ok (firstn pos l ++ sub ++ skipn (pos + k) l)
  else Panic.

(* shared tail of anyBytes / alwaysAnyBytes after the callback returned *)
Definition patch_length (b3 : bytes) (lengthStart messageStart : nat) : result bytes :=
  let messageLength := (length b3 - messageStart)%nat in
  let bfs := Z.to_nat (size_varint (Z.of_nat messageLength)) in
  if Nat.eqb bfs 2 then
    put_uvarint_at b3 lengthStart (messageStart - lengthStart) (Z.of_nat messageLength)
  else
    let b4 := if Nat.ltb 2 bfs then b3 ++ repeat 0 (bfs - 2) else b3 in
    let! b5 := copy_within b4 (lengthStart + bfs) messageStart in
    let! b6 := put_uvarint_at b5 lengthStart bfs (Z.of_nat messageLength) in
    sl_to b6 (lengthStart + bfs + messageLength).

(* encoder.go anyBytes *)
Definition any_bytes (field : Z) (fn : bytes -> result (bytes * bool)) (buf : bytes) : result (bytes * bool) :=
  let tagStart := length buf in
  let b1 := buf ++ append_tag field BytesType in
  let lengthStart := length b1 in
  let b2 := b1 ++ [0; 0] in
  let messageStart := length b2 in
  let! '(b3, ok) := fn b2 in
  if negb ok then
    let! b := sl_to b3 tagStart in Ok (b, false)
  else
    let! b := patch_length b3 lengthStart messageStart in Ok (b, true).

(* encoder.go alwaysAnyBytes *)
Definition always_any_bytes (field : Z) (fn : bytes -> result bytes) (buf : bytes) : result bytes :=
  let b1 := buf ++ append_tag field BytesType in
  let lengthStart := length b1 in
  let b2 := b1 ++ [0; 0] in
  let messageStart := length b2 in
  let! b3 := fn b2 in
  patch_length b3 lengthStart messageStart.

(* Message / AlwaysMessage / PresentMessage *)
Definition enc_message (field : Z) (fn : bytes -> result (bytes * bool)) (buf : bytes) : result bytes :=
  let! '(b, _) := any_bytes field fn buf in Ok b.
Definition enc_always_message (field : Z) (fn : bytes -> result (bytes * bool)) (buf : bytes) : result bytes :=
  always_any_bytes field (fun b => let! '(b', _) := fn b in Ok b') buf.
Definition enc_present_message (field : Z) (fn : bytes -> result (bytes * bool)) (buf : bytes) : result bytes :=
  let! '(b, _) := any_bytes field (fun b =>
      let lengthStart := length b in
      let! '(b', _) := fn b in
      Ok (b', Nat.ltb lengthStart (length b'))) buf in Ok b.

(* RepeatedEnum(field, n, fn): values are int32; AppendVarint(uint64(int32)) *)
Definition enc_repeated_enum (field : Z) (vs : list Z) (buf : bytes) : result bytes :=
  match vs with
  | [] => Ok buf
  | _ => always_any_bytes field (fun b => Ok (b ++ flat_map (fun x => append_varint (u64 x)) vs)) buf
  end.

(* ---- the 60 typed writers, generated from the table ------------------------- *)
(* [Always]K(field, v) *)
Definition enc_single (k : kind) (always : bool) (field : Z) (v : val) (buf : bytes) : bytes :=
  if negb always && is_default k v then buf
  else buf ++ append_tag field (wire_of k) ++ enc_payload k v.

(* [Always]RepeatedK(field, vs) *)
Definition enc_repeated (k : kind) (always : bool) (field : Z) (vs : list val) (buf : bytes) : result bytes :=
  if negb always && Nat.eqb (length vs) 0 then Ok buf else
  match wire_of k with
  | 0 =>
      match k with
      | KBool =>
          Ok (buf ++ append_tag field BytesType ++ append_varint (Z.of_nat (length vs))
                  ++ map (fun x => if as_int x =? 0 then 0 else 1) vs)      (* encodeBool8 *)
      | _ => always_any_bytes field
               (fun b => Ok (b ++ flat_map (fun x => append_varint (enc_tr k (as_int x))) vs)) buf
      end
  | 5 => Ok (buf ++ append_tag field BytesType ++ append_varint (u64 (Z.of_nat (length vs) * 4))
                 ++ flat_map (fun x => append_fixed32 (enc_tr k (as_int x))) vs)
  | 1 => Ok (buf ++ append_tag field BytesType ++ append_varint (u64 (Z.of_nat (length vs) * 8))
                 ++ flat_map (fun x => append_fixed64 (enc_tr k (as_int x))) vs)
  | _ => Ok (buf ++ flat_map (fun x => append_tag field (wire_of k) ++ append_bytes (as_bytes x)) vs)
  end.
