(* Concrete buffers (C17): a Go slice is (backing array, len); cap = length of the array.
   Stale contents beyond len and the growth policy of append are arbitrary. Every primitive
   the encoder uses commutes with `view` (the bytes enc.buffer[:len]) - so no operation ever
   exposes stale bytes, and results do not depend on the buffer's provenance. *)
From Coq Require Import List ZArith Lia Bool Arith.
From Pico Require Import Base.Res Base.ListX Wire.Wire Enc.Enc.
Import ListNotations.
Open Scope nat_scope.

Record cbuf := { arr : list Z; len : nat }.
Definition wf (b : cbuf) : Prop := len b <= length (arr b).
Definition view (b : cbuf) : bytes := firstn (len b) (arr b).

Section Grow.
(* growth policy of append: how much extra capacity, and what the new tail holds - arbitrary *)
Variable extra : nat -> nat -> list Z.

(* append(b, xs...) *)
Definition append_c (b : cbuf) (xs : bytes) : cbuf :=
  if Nat.leb (len b + length xs) (length (arr b))
  then {| arr := firstn (len b) (arr b) ++ xs ++ skipn (len b + length xs) (arr b); len := len b + length xs |}
  else {| arr := firstn (len b) (arr b) ++ xs ++ extra (length (arr b)) (len b + length xs); len := len b + length xs |}.

(* b[:n] with n <= len (shrinking reslice: rollback, final trim). n > cap panics; len < n <= cap would
   expose stale bytes - the encoder never does that, see reslice_c_view's hypothesis *)
Definition reslice_c (b : cbuf) (n : nat) : result cbuf :=
  if Nat.leb n (length (arr b)) then Ok {| arr := arr b; len := n |} else Panic.

(* buffer[:0] as done by MarshalBuffer / NewEncoderBuffer *)
Definition reset_c (b : cbuf) : cbuf := {| arr := arr b; len := 0 |}.

(* copy(b[dst:], b[src:]) : only the first len bytes take part *)
Definition copy_c (b : cbuf) (dst src : nat) : result cbuf :=
  match copy_within (view b) dst src with
  | Ok v => Ok {| arr := v ++ skipn (len b) (arr b); len := len b |}
  | Panic => Panic
  end.

(* PutUvarint(b[pos:pos+k], x) *)
Definition put_c (b : cbuf) (pos k : nat) (x : Z) : result cbuf :=
  match put_uvarint_at (view b) pos k x with
  | Ok v => Ok {| arr := v ++ skipn (len b) (arr b); len := len b |}
  | Panic => Panic
  end.

Lemma view_append b xs : wf b -> view (append_c b xs) = view b ++ xs /\ wf (append_c b xs).
Proof.
  unfold wf, view, append_c. intros Hw.
  destruct (Nat.leb_spec (len b + length xs) (length (arr b))); cbn [arr len].
  - split.
    + rewrite app_assoc. rewrite firstn_app_l; [reflexivity|]. rewrite app_length, firstn_length. lia.
    + rewrite !app_length, firstn_length, skipn_length. lia.
  - split.
    + rewrite app_assoc. rewrite firstn_app_l; [reflexivity|]. rewrite app_length, firstn_length. lia.
    + rewrite !app_length, firstn_length. lia.
Qed.

Lemma view_reslice b n : wf b -> n <= len b ->
  exists b', reslice_c b n = Ok b' /\ view b' = firstn n (view b) /\ wf b'.
Proof.
  unfold wf, view, reslice_c. intros Hw Hn.
  replace (n <=? length (arr b)) with true by (symmetry; apply Nat.leb_le; lia).
  eexists. split; [reflexivity|]. cbn [arr len]. split; [|lia].
  rewrite firstn_firstn. f_equal. lia.
Qed.

Lemma view_reset b : view (reset_c b) = [] /\ (wf b -> wf (reset_c b)).
Proof. unfold view, reset_c, wf. cbn. split; [reflexivity|lia]. Qed.

Lemma copy_within_length l dst src v : copy_within l dst src = Ok v -> length v = length l.
Proof.
  unfold copy_within. destruct (Nat.leb_spec dst (length l)) as [Hd|Hd]; destruct (Nat.leb_spec src (length l)) as [Hs|Hs]; cbn [andb]; try discriminate.
  intros E. injection E as <-. rewrite !app_length, !firstn_length, !skipn_length. lia.
Qed.

Lemma view_copy b dst src : wf b ->
  match copy_c b dst src, copy_within (view b) dst src with
  | Ok b', Ok v => view b' = v /\ wf b'
  | Panic, Panic => True
  | _, _ => False
  end.
Proof.
  unfold copy_c. intros Hw. destruct (copy_within (view b) dst src) as [v|] eqn:E; [|exact I].
  pose proof (copy_within_length _ _ _ _ E) as Hl.
  assert (Hv : length (view b) = len b) by (unfold view; rewrite firstn_length; unfold wf in Hw; lia).
  unfold view at 1, wf. cbn [arr len]. split.
  - apply firstn_app_l. lia.
  - rewrite app_length, skipn_length. unfold wf in Hw. lia.
Qed.

Lemma put_uvarint_from_length : forall fuel buf i x v, put_uvarint_from fuel buf i x = Ok v -> length v = length buf.
Proof.
  induction fuel as [|f IH]; intros buf i x v H; cbn in H; [discriminate|].
  destruct (128 <=? x)%Z.
  - unfold put in H. destruct (i <? length buf); [|discriminate]. cbn [bind] in H.
    apply IH in H. rewrite upd_length in H. exact H.
  - unfold put in H. destruct (i <? length buf); [|discriminate]. injection H as <-. apply upd_length.
Qed.

Lemma put_uvarint_at_length l pos k x v : put_uvarint_at l pos k x = Ok v -> length v = length l.
Proof.
  unfold put_uvarint_at. destruct (Nat.leb_spec (pos + k) (length l)) as [Hle|Hle]; [|discriminate].
  destruct (put_uvarint (firstn k (skipn pos l)) x) as [sub|] eqn:E; [|discriminate].
  cbn [bind]. intros E2. injection E2 as <-.
  apply put_uvarint_from_length in E. rewrite !app_length, firstn_length, E, firstn_length, !skipn_length. lia.
Qed.

Lemma view_put b pos k x : wf b ->
  match put_c b pos k x, put_uvarint_at (view b) pos k x with
  | Ok b', Ok v => view b' = v /\ wf b'
  | Panic, Panic => True
  | _, _ => False
  end.
Proof.
  unfold put_c. intros Hw. destruct (put_uvarint_at (view b) pos k x) as [v|] eqn:E; [|exact I].
  pose proof (put_uvarint_at_length _ _ _ _ _ E) as Hl.
  assert (Hv : length (view b) = len b) by (unfold view; rewrite firstn_length; unfold wf in Hw; lia).
  unfold view at 1, wf. cbn [arr len]. split.
  - apply firstn_app_l. lia.
  - rewrite app_length, skipn_length. unfold wf in Hw. lia.
Qed.
End Grow.
