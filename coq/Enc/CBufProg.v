(* C17, composed: every PROGRAM of Encoder calls run on a CONCRETE buffer - a Go slice (backing array, len) with arbitrary
   stale bytes beyond len, arbitrary capacity and an arbitrary growth policy of append - yields a slice whose visible bytes
   are exactly what the list-level encoder (Enc/Enc.v, Schema/Calls.v) yields on the visible bytes of the start buffer.
   Hence (with run_calls_spec) the result of encoding is start ++ reference bytes whatever the buffer's provenance, and no
   operation ever exposes a stale byte. The primitives' refinement is Enc/CBuf.v; this file lifts it through the length-
   prefix machinery (reserve two bytes, call back, patch / shift / roll back) and through arbitrary nesting. *)
From Coq Require Import List ZArith Lia Bool Arith.
From Pico Require Import Base.Res Base.ListX Base.Mach Wire.Wire Schema.Types Schema.Scalar Enc.Enc Enc.CBuf Schema.Interp Schema.Calls.
Import ListNotations.
Open Scope nat_scope.

Section Prog.
Variable extra : nat -> nat -> list Z.
Notation app_c := (append_c extra).

Lemma view_length b : wf b -> length (view b) = len b.
Proof. unfold wf, view. intros H. rewrite firstn_length. lia. Qed.

(* concrete result simulates abstract result: when the list-level run succeeds, so does the concrete one, with that view *)
Definition sim (r : result bytes) (rc : result cbuf) : Prop :=
  match r with Ok v => exists b', rc = Ok b' /\ view b' = v /\ wf b' | Panic => True end.
Definition sim2 (r : result (bytes * bool)) (rc : result (cbuf * bool)) : Prop :=
  match r with Ok (v, ok) => exists b', rc = Ok (b', ok) /\ view b' = v /\ wf b' | Panic => True end.
Definition refines (fc : cbuf -> result cbuf) (fa : bytes -> result bytes) : Prop := forall b, wf b -> sim (fa (view b)) (fc b).
Definition refines2 (fc : cbuf -> result (cbuf * bool)) (fa : bytes -> result (bytes * bool)) : Prop := forall b, wf b -> sim2 (fa (view b)) (fc b).

(* several appends in a row *)
Definition appends_c (b : cbuf) (xss : list bytes) : cbuf := fold_left app_c xss b.
Lemma view_appends xss : forall b, wf b -> view (appends_c b xss) = view b ++ concat xss /\ wf (appends_c b xss).
Proof.
  induction xss as [|xs xss IH]; intros b Hw; cbn [appends_c fold_left concat]; [rewrite app_nil_r; split; [reflexivity|exact Hw]|].
  destruct (view_append extra b xs Hw) as [E Hw1]. destruct (IH (app_c b xs) Hw1) as [E2 Hw2]. fold (appends_c (app_c b xs) xss).
  split; [rewrite E2, E, <- app_assoc; reflexivity|exact Hw2].
Qed.

Lemma refines_bind fc1 fa1 fc2 fa2 : refines fc1 fa1 -> refines fc2 fa2 ->
  refines (fun b => let! b1 := fc1 b in fc2 b1) (fun v => let! v1 := fa1 v in fa2 v1).
Proof.
  intros H1 H2 b Hw. specialize (H1 b Hw). unfold sim in *. destruct (fa1 (view b)) as [v1|]; [|exact I].
  destruct H1 as [b1 [E1 [V1 W1]]]. rewrite E1. cbn [bind]. rewrite <- V1. exact (H2 b1 W1).
Qed.

(* ---- the length-prefix tail shared by anyBytes / alwaysAnyBytes *)
Definition patch_length_c (b3 : cbuf) (lengthStart messageStart : nat) : result cbuf :=
  let messageLength := len b3 - messageStart in
  let bfs := Z.to_nat (size_varint (Z.of_nat messageLength)) in
  if Nat.eqb bfs 2 then put_c b3 lengthStart (messageStart - lengthStart) (Z.of_nat messageLength)
  else
    let b4 := if Nat.ltb 2 bfs then app_c b3 (repeat 0%Z (bfs - 2)) else b3 in
    let! b5 := copy_c b4 (lengthStart + bfs) messageStart in
    let! b6 := put_c b5 lengthStart bfs (Z.of_nat messageLength) in
    reslice_c b6 (lengthStart + bfs + messageLength).

Lemma patch_length_sim b3 ls ms : wf b3 -> sim (patch_length (view b3) ls ms) (patch_length_c b3 ls ms).
Proof.
  intros Hw. unfold patch_length, patch_length_c. cbv zeta. rewrite (view_length b3 Hw).
  set (ml := len b3 - ms). set (bfs := Z.to_nat (size_varint (Z.of_nat ml))).
  destruct (Nat.eqb bfs 2).
  - pose proof (view_put b3 ls (ms - ls) (Z.of_nat ml) Hw) as H. unfold sim.
    destruct (put_uvarint_at (view b3) ls (ms - ls) (Z.of_nat ml)) as [v|]; [|exact I].
    destruct (put_c b3 ls (ms - ls) (Z.of_nat ml)) as [b'|]; [|contradiction]. exists b'. destruct H as [V W]. auto.
  - set (b4 := if Nat.ltb 2 bfs then app_c b3 (repeat 0%Z (bfs - 2)) else b3).
    assert (H4 : view b4 = (if Nat.ltb 2 bfs then view b3 ++ repeat 0%Z (bfs - 2) else view b3) /\ wf b4).
    { unfold b4. destruct (Nat.ltb 2 bfs); [apply view_append; exact Hw|split; [reflexivity|exact Hw]]. }
    destruct H4 as [V4 W4].
    match goal with |- context[copy_within ?x (ls + bfs) ms] => replace x with (view b4) by (exact V4) end.
    pose proof (view_copy b4 (ls + bfs) ms W4) as H5. unfold sim.
    destruct (copy_within (view b4) (ls + bfs) ms) as [v5|]; [|exact I].
    destruct (copy_c b4 (ls + bfs) ms) as [b5|]; [|contradiction]. destruct H5 as [V5 W5]. cbn [bind]. rewrite <- V5.
    pose proof (view_put b5 ls bfs (Z.of_nat ml) W5) as H6.
    destruct (put_uvarint_at (view b5) ls bfs (Z.of_nat ml)) as [v6|]; [|exact I].
    destruct (put_c b5 ls bfs (Z.of_nat ml)) as [b6|]; [|contradiction]. destruct H6 as [V6 W6]. cbn [bind]. rewrite <- V6.
    unfold sl_to. destruct (Nat.leb_spec (ls + bfs + ml) (length (view b6))) as [Hle|Hle]; [|exact I].
    rewrite (view_length b6 W6) in Hle. destruct (view_reslice b6 (ls + bfs + ml) W6 Hle) as [b' [E [V W]]].
    exists b'. auto.
Qed.

(* ---- alwaysAnyBytes / anyBytes on a concrete buffer *)
Definition always_any_bytes_c (field : Z) (fn : cbuf -> result cbuf) (b : cbuf) : result cbuf :=
  let b1 := app_c b (append_tag field BytesType) in
  let lengthStart := len b1 in
  let b2 := app_c b1 [0; 0]%Z in
  let messageStart := len b2 in
  let! b3 := fn b2 in
  patch_length_c b3 lengthStart messageStart.

Definition any_bytes_c (field : Z) (fn : cbuf -> result (cbuf * bool)) (b : cbuf) : result (cbuf * bool) :=
  let tagStart := len b in
  let b1 := app_c b (append_tag field BytesType) in
  let lengthStart := len b1 in
  let b2 := app_c b1 [0; 0]%Z in
  let messageStart := len b2 in
  let! '(b3, ok) := fn b2 in
  if negb ok then let! b' := reslice_c b3 tagStart in Ok (b', false)
  else let! b' := patch_length_c b3 lengthStart messageStart in Ok (b', true).

Lemma always_any_bytes_refines field fnc fna : refines fnc fna -> refines (always_any_bytes_c field fnc) (always_any_bytes field fna).
Proof.
  intros Hfn b Hw. unfold always_any_bytes, always_any_bytes_c.
  destruct (view_append extra b (append_tag field BytesType) Hw) as [V1 W1]. set (b1 := app_c b (append_tag field BytesType)) in *.
  destruct (view_append extra b1 [0; 0]%Z W1) as [V2 W2]. set (b2 := app_c b1 [0; 0]%Z) in *.
  rewrite <- V1, <- V2, (view_length b1 W1), (view_length b2 W2).
  specialize (Hfn b2 W2). unfold sim in Hfn |- *. destruct (fna (view b2)) as [v3|]; [|exact I].
  destruct Hfn as [b3 [E3 [V3 W3]]]. rewrite E3. cbn [bind]. rewrite <- V3. exact (patch_length_sim b3 (len b1) (len b2) W3).
Qed.

Lemma any_bytes_refines field fnc fna : refines2 fnc fna -> refines2 (any_bytes_c field fnc) (any_bytes field fna).
Proof.
  intros Hfn b Hw. unfold any_bytes, any_bytes_c. rewrite (view_length b Hw).
  destruct (view_append extra b (append_tag field BytesType) Hw) as [V1 W1]. set (b1 := app_c b (append_tag field BytesType)) in *.
  destruct (view_append extra b1 [0; 0]%Z W1) as [V2 W2]. set (b2 := app_c b1 [0; 0]%Z) in *.
  rewrite <- V1, <- V2, (view_length b1 W1), (view_length b2 W2).
  specialize (Hfn b2 W2). unfold sim2 in Hfn |- *. destruct (fna (view b2)) as [[v3 ok]|]; [|exact I].
  destruct Hfn as [b3 [E3 [V3 W3]]]. rewrite E3. cbn [bind]. rewrite <- V3. destruct ok; cbn [negb].
  - pose proof (patch_length_sim b3 (len b1) (len b2) W3) as H. unfold sim in H.
    destruct (patch_length (view b3) (len b1) (len b2)) as [v|]; [|exact I]. destruct H as [b' [E [V W]]]. rewrite E. cbn [bind].
    exists b'. auto.
  - unfold sl_to. destruct (Nat.leb_spec (len b) (length (view b3))) as [Hle|Hle]; [|exact I]. cbn [bind].
    rewrite (view_length b3 W3) in Hle. destruct (view_reslice b3 (len b) W3 Hle) as [b' [E [V W]]]. rewrite E. cbn [bind].
    exists b'. auto.
Qed.

(* ---- Message / AlwaysMessage / PresentMessage *)
Definition enc_message_c (field : Z) (fn : cbuf -> result (cbuf * bool)) (b : cbuf) : result cbuf :=
  let! '(b', _) := any_bytes_c field fn b in Ok b'.
Definition enc_always_message_c (field : Z) (fn : cbuf -> result (cbuf * bool)) (b : cbuf) : result cbuf :=
  always_any_bytes_c field (fun b => let! '(b', _) := fn b in Ok b') b.
Definition enc_present_message_c (field : Z) (fn : cbuf -> result (cbuf * bool)) (b : cbuf) : result cbuf :=
  let! '(b', _) := any_bytes_c field (fun b =>
      let lengthStart := len b in
      let! '(b', _) := fn b in
      Ok (b', Nat.ltb lengthStart (len b'))) b in Ok b'.

Lemma drop_flag_sim r rc : sim2 r rc -> sim (let! '(v, _) := r in Ok v) (let! '(b', _) := rc in Ok b').
Proof.
  unfold sim2, sim. destruct r as [[v ok]|]; [|intros _; exact I]. intros [b' [E [V W]]]. rewrite E. cbn [bind]. exists b'. auto.
Qed.
Lemma enc_message_refines field fnc fna : refines2 fnc fna -> refines (enc_message_c field fnc) (enc_message field fna).
Proof. intros H b Hw. unfold enc_message, enc_message_c. apply drop_flag_sim. exact (any_bytes_refines field fnc fna H b Hw). Qed.
Lemma enc_always_message_refines field fnc fna : refines2 fnc fna -> refines (enc_always_message_c field fnc) (enc_always_message field fna).
Proof.
  intros H. unfold enc_always_message, enc_always_message_c. apply always_any_bytes_refines.
  intros b Hw. apply drop_flag_sim. exact (H b Hw).
Qed.
Lemma enc_present_message_refines field fnc fna : refines2 fnc fna -> refines (enc_present_message_c field fnc) (enc_present_message field fna).
Proof.
  intros H b Hw. unfold enc_present_message, enc_present_message_c. apply drop_flag_sim.
  apply any_bytes_refines; [|exact Hw]. intros b0 Hw0. specialize (H b0 Hw0). unfold sim2 in *.
  rewrite (view_length b0 Hw0). destruct (fna (view b0)) as [[v ok]|]; [|exact I]. destruct H as [b' [E [V W]]]. rewrite E. cbn [bind].
  exists b'. rewrite <- V, (view_length b' W). auto.
Qed.

(* ---- the typed writers: sequences of appends (tag, length, elements), or a packed payload behind a patched length *)
Definition enc_single_c (k : kind) (always : bool) (field : Z) (v : val) (b : cbuf) : cbuf :=
  if negb always && is_default k v then b
  else appends_c b [append_tag field (wire_of k); enc_payload k v].

Definition enc_repeated_c (k : kind) (always : bool) (field : Z) (vs : list val) (b : cbuf) : result cbuf :=
  if negb always && Nat.eqb (length vs) 0 then Ok b else
  match wire_of k with
  | 0%Z =>
      match k with
      | KBool => Ok (appends_c b [append_tag field BytesType; append_varint (Z.of_nat (length vs)); map (fun x => if (as_int x =? 0)%Z then 0%Z else 1%Z) vs])
      | _ => always_any_bytes_c field (fun b0 => Ok (appends_c b0 (map (fun x => append_varint (enc_tr k (as_int x))) vs))) b
      end
  | 5%Z => Ok (appends_c b (append_tag field BytesType :: append_varint (u64 (Z.of_nat (length vs) * 4)) :: map (fun x => append_fixed32 (enc_tr k (as_int x))) vs))
  | 1%Z => Ok (appends_c b (append_tag field BytesType :: append_varint (u64 (Z.of_nat (length vs) * 8)) :: map (fun x => append_fixed64 (enc_tr k (as_int x))) vs))
  | _ => Ok (appends_c b (flat_map (fun x => [append_tag field (wire_of k); append_bytes (as_bytes x)]) vs))
  end.

Definition enc_repeated_enum_c (field : Z) (vs : list Z) (b : cbuf) : result cbuf :=
  match vs with
  | [] => Ok b
  | _ => always_any_bytes_c field (fun b0 => Ok (appends_c b0 (map (fun x => append_varint (u64 x)) vs))) b
  end.

Lemma sim_appends b xss v : wf b -> v = view b ++ concat xss -> sim (Ok v) (Ok (appends_c b xss)).
Proof. intros Hw ->. destruct (view_appends xss b Hw) as [V W]. exists (appends_c b xss). auto. Qed.

Lemma concat_map_flat {A} (f : A -> bytes) l : concat (map f l) = flat_map f l.
Proof. induction l as [|x l IH]; cbn; [reflexivity|rewrite IH; reflexivity]. Qed.

Lemma enc_single_sim k always field v b : wf b -> sim (Ok (enc_single k always field v (view b))) (Ok (enc_single_c k always field v b)).
Proof.
  intros Hw. unfold enc_single, enc_single_c. destruct (negb always && is_default k v).
  - exists b. auto.
  - apply sim_appends; [exact Hw|]. cbn [concat]. rewrite app_nil_r. reflexivity.
Qed.

Lemma enc_repeated_refines k always field vs : refines (enc_repeated_c k always field vs) (enc_repeated k always field vs).
Proof.
  intros b Hw. unfold enc_repeated, enc_repeated_c. destruct (negb always && Nat.eqb (length vs) 0); [exists b; auto|].
  assert (Hcons : forall (f : val -> bytes) (g : val -> list bytes), (forall x, concat (g x) = f x) -> forall l, concat (flat_map g l) = flat_map f l).
  { intros f g Hfg l. induction l as [|x l IH]; cbn [flat_map]; [reflexivity|]. rewrite concat_app, Hfg, IH. reflexivity. }
  destruct k; cbv beta iota delta [wire_of VarintType Fixed64Type BytesType Fixed32Type];
    first [ apply always_any_bytes_refines; [|exact Hw]; intros b0 Hw0; apply sim_appends; [exact Hw0|rewrite concat_map_flat; reflexivity]
          | apply sim_appends; [exact Hw|]; cbn [concat]; rewrite ?app_nil_r, ?concat_map_flat; reflexivity
          | apply sim_appends; [exact Hw|]; f_equal; symmetry; apply Hcons; intros x; cbn [concat]; rewrite app_nil_r; reflexivity ].
Qed.

Lemma enc_repeated_enum_refines field vs : refines (enc_repeated_enum_c field vs) (enc_repeated_enum field vs).
Proof.
  intros b Hw. unfold enc_repeated_enum, enc_repeated_enum_c. destruct vs as [|x vs]; [exists b; auto|].
  apply always_any_bytes_refines; [|exact Hw]. intros b0 Hw0. apply sim_appends; [exact Hw0|]. rewrite concat_map_flat. reflexivity.
Qed.

(* ---- programs of Encoder calls on a concrete buffer *)
Fixpoint run_call_c (fuel : nat) (c : ecall) (b : cbuf) : result cbuf :=
  match fuel with
  | O => Panic
  | S f =>
      let body (cs : list ecall) (b0 : cbuf) := rfold (run_call_c f) cs b0 in
      match c with
      | CScalar k always rep field vs =>
          if rep then enc_repeated_c k always field vs b else Ok (enc_single_c k always field (first_val vs) b)
      | CRepEnum field vs => enc_repeated_enum_c field vs b
      | CMessage field cs ok => enc_message_c field (fun b0 => let! b' := body cs b0 in Ok (b', ok)) b
      | CAlwaysMessage field cs ok => enc_always_message_c field (fun b0 => let! b' := body cs b0 in Ok (b', ok)) b
      | CPresentMessage field cs ok => enc_present_message_c field (fun b0 => let! b' := body cs b0 in Ok (b', ok)) b
      | CAlwaysAnyBytes field cs => always_any_bytes_c field (fun b0 => body cs b0) b
      | CUnrec bs => Ok (app_c b bs)
      end
  end.
Definition run_calls_c (fuel : nat) (cs : list ecall) (b : cbuf) : result cbuf := rfold (run_call_c fuel) cs b.

Lemma rfold_refines {A} (fc : A -> cbuf -> result cbuf) (fa : A -> bytes -> result bytes) l :
  (forall x, In x l -> refines (fc x) (fa x)) -> refines (rfold fc l) (rfold fa l).
Proof.
  induction l as [|x l IH]; intros H b Hw; cbn [rfold]; [exists b; auto|].
  pose proof (H x (or_introl eq_refl) b Hw) as H1. unfold sim in H1 |- *.
  destruct (fa x (view b)) as [v1|]; [|exact I]. destruct H1 as [b1 [E1 [V1 W1]]]. rewrite E1. cbn [bind]. rewrite <- V1.
  exact (IH (fun y Hy => H y (or_intror Hy)) b1 W1).
Qed.

Lemma with_flag_refines fc fa (ok : bool) : refines fc fa ->
  refines2 (fun b0 => let! b' := fc b0 in Ok (b', ok)) (fun v0 => let! v' := fa v0 in Ok (v', ok)).
Proof.
  intros H b Hw. specialize (H b Hw). unfold sim, sim2 in *. destruct (fa (view b)) as [v|]; [|exact I].
  destruct H as [b' [E [V W]]]. rewrite E. cbn [bind]. exists b'. auto.
Qed.

Theorem run_call_refines : forall fuel c, refines (run_call_c fuel c) (run_call fuel c).
Proof.
  induction fuel as [|f IH]; intros c b Hw; [exact I|].
  assert (Hbody : forall cs, refines (rfold (run_call_c f) cs) (rfold (run_call f) cs)).
  { intros cs. apply rfold_refines. intros x _. apply IH. }
  destruct c as [k always rep field vs|field vs|field cs ok|field cs ok|field cs ok|field cs|bs]; cbn [run_call run_call_c].
  - destruct rep; [apply enc_repeated_refines; exact Hw|apply enc_single_sim; exact Hw].
  - apply enc_repeated_enum_refines; exact Hw.
  - apply enc_message_refines; [apply with_flag_refines, Hbody|exact Hw].
  - apply enc_always_message_refines; [apply with_flag_refines, Hbody|exact Hw].
  - apply enc_present_message_refines; [apply with_flag_refines, Hbody|exact Hw].
  - apply always_any_bytes_refines; [apply Hbody|exact Hw].
  - destruct (view_append extra b bs Hw) as [V W]. exists (app_c b bs). auto.
Qed.

Theorem run_calls_refines fuel cs : refines (run_calls_c fuel cs) (run_calls fuel cs).
Proof. apply rfold_refines. intros x _. apply run_call_refines. Qed.

(* with the specification of well-typed programs: the visible result is start ++ reference bytes, for every concrete buffer *)
Theorem run_calls_c_spec fuel cs b : wf b -> forallb (call_ok fuel) cs = true ->
  exists b', run_calls_c fuel cs b = Ok b' /\ view b' = view b ++ flat_map (spec_call fuel) cs /\ wf b'.
Proof.
  intros Hw Hok. pose proof (run_calls_refines fuel cs b Hw) as H. rewrite (run_calls_spec fuel cs (view b) Hok) in H. exact H.
Qed.

(* MarshalBuffer / NewEncoderBuffer: the buffer is cut to length 0 first; the result does not depend on what it was *)
Theorem encode_into_any_buffer fuel cs b1 b2 : wf b1 -> wf b2 -> forallb (call_ok fuel) cs = true ->
  exists r1 r2, run_calls_c fuel cs (reset_c b1) = Ok r1 /\ run_calls_c fuel cs (reset_c b2) = Ok r2 /\
                view r1 = view r2 /\ view r1 = flat_map (spec_call fuel) cs.
Proof.
  intros W1 W2 Hok.
  destruct (view_reset b1) as [V1 R1]. destruct (view_reset b2) as [V2 R2].
  destruct (run_calls_c_spec fuel cs (reset_c b1) (R1 W1) Hok) as [r1 [E1 [X1 _]]].
  destruct (run_calls_c_spec fuel cs (reset_c b2) (R2 W2) Hok) as [r2 [E2 [X2 _]]].
  exists r1, r2. rewrite V1 in X1. rewrite V2 in X2. cbn [app] in X1, X2. repeat split; try assumption. rewrite X1, X2. reflexivity.
Qed.
End Prog.
