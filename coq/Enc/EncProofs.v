(* anyBytes / alwaysAnyBytes: reserve two bytes, encode, re-encode the length, shift.
   For every payload length the result is tag ++ minimal length ++ payload and no
   slice operation is out of bounds (C06, C13 nesting, C04-style safety of the encoder). *)
From Coq Require Import List ZArith Lia Bool Arith.
From Pico Require Import Base.Res Base.ListX Base.Mach Wire.Wire Schema.Types Schema.Scalar Ref.Ref
  Wire.VarintProofs Wire.WireProofs Enc.Enc.
Import ListNotations.
Open Scope Z_scope.

(* PutUvarint into a slice of exactly the right size writes the canonical varint *)
Lemma put_uvarint_from_spec k : forall fuel pre suf x,
  (1 <= k)%nat -> (k <= fuel)%nat -> length suf = k -> 0 <= x < 128 ^ Z.of_nat k ->
  length (varint7 k x) = k ->
  put_uvarint_from fuel (pre ++ suf) (length pre) x = Ok (pre ++ varint7 k x).
Proof.
  induction k as [|k IH]; intros fuel pre suf x Hk Hf Hl Hx Hlen; [lia|].
  destruct fuel as [|fuel]; [lia|]. destruct suf as [|s0 suf]; [discriminate|].
  cbn [length] in Hl. cbn [put_uvarint_from varint7] in *.
  destruct (Z.ltb_spec x 128) as [Hs|Hb].
  - cbn [length] in Hlen. assert (k = 0%nat) by lia. subst k. destruct suf; [|discriminate].
    replace (128 <=? x) with false by (symmetry; apply Z.leb_gt; lia).
    unfold put. rewrite app_length. cbn [length].
    replace (length pre <? length pre + 1)%nat with true by (symmetry; apply Nat.ltb_lt; lia).
    rewrite upd_app_mid. rewrite u8_small by lia. reflexivity.
  - cbn [length] in Hlen.
    destruct k as [|k']; [change (128 ^ Z.of_nat 1) with 128 in Hx; lia|].
    replace (128 <=? x) with true by (symmetry; apply Z.leb_le; lia).
    unfold put at 1. rewrite app_length. cbn [length].
    replace (length pre <? length pre + S (length suf))%nat with true by (symmetry; apply Nat.ltb_lt; lia).
    cbn [bind]. rewrite upd_app_mid.
    assert (Hu : Z.lor (u8 x) 128 = x mod 128 + 128).
    { pose proof (uvarint_loop_spec 2 x ltac:(lia)) as U. cbn [uvarint_loop varint7] in U.
      destruct (Z.leb_spec 128 x); [|lia]. destruct (Z.ltb_spec x 128); [lia|].
      destruct (Z.lt_ge_cases x (128 ^ Z.of_nat 2)) as [Hlt|Hge].
      - specialize (U ltac:(lia)). injection U as U _. exact U.
      - (* x large: same bit argument on x mod 256 *)
        unfold u8, u.
        assert (E : Z.lor (x mod 2 ^ 8) (2 ^ 7) = Z.lor (x mod 2 ^ 7) (2 ^ 7)).
        { apply Z.bits_inj'. intros i Hi. rewrite !Z.lor_spec.
          destruct (Z.ltb_spec i 7).
          - rewrite !Z.mod_pow2_bits_low by lia. reflexivity.
          - destruct (Z.eqb_spec i 7) as [->|Hne].
            + rewrite Z.pow2_bits_true by lia. rewrite !orb_true_r. reflexivity.
            + rewrite !Z.mod_pow2_bits_high by lia. reflexivity. }
        change 128 with (2 ^ 7). rewrite E. change (2 ^ 7) with 128.
        apply lor_128. apply Z.mod_pos_bound. lia. }
    rewrite Hu.
    replace (pre ++ (x mod 128 + 128) :: suf) with ((pre ++ [x mod 128 + 128]) ++ suf) by (rewrite <- app_assoc; reflexivity).
    replace (S (length pre)) with (length (pre ++ [x mod 128 + 128])) by (rewrite app_length; cbn; lia).
    rewrite Z.shiftr_div_pow2 by lia. change (2 ^ 7) with 128.
    rewrite (IH fuel _ suf (x / 128)); try lia.
    + rewrite <- app_assoc. reflexivity.
    + split; [apply Z.div_pos; lia|]. apply Z.div_lt_upper_bound; [lia|].
      replace (Z.of_nat (S (S k'))) with (Z.of_nat (S k') + 1) in Hx by lia.
      rewrite Z.pow_add_r in Hx by lia. lia.
Qed.

Lemma put_uvarint_spec sub x : u64_ok x -> length sub = ndigits x -> put_uvarint sub x = Ok (spec_varint x).
Proof.
  intros Hx Hl. destruct (ndigits_bounds x Hx) as [Hk [Hlt Hge]].
  unfold put_uvarint.
  pose proof (put_uvarint_from_spec (ndigits x) 10 [] sub x) as P. cbn [app length] in P.
  rewrite P; try lia.
  - rewrite spec_varint_ndigits by exact Hx. reflexivity.
  - destruct Hx; lia.
  - apply varint7_length_exact; [lia|destruct Hx; lia|exact Hge].
Qed.

Lemma put_uvarint_at_spec a x c v : u64_ok v -> length x = ndigits v ->
  put_uvarint_at (a ++ x ++ c) (length a) (length x) v = Ok (a ++ spec_varint v ++ c).
Proof.
  intros Hv Hl. unfold put_uvarint_at. rewrite !app_length.
  replace (length a + length x <=? length a + (length x + length c))%nat with true by (symmetry; apply Nat.leb_le; lia).
  rewrite (skipn_app_l a (x ++ c)) by reflexivity. rewrite (firstn_app_l x c) by reflexivity.
  rewrite put_uvarint_spec by assumption. cbn [bind].
  rewrite (firstn_app_l a) by reflexivity.
  rewrite (app_assoc a x c). rewrite (skipn_app_l (a ++ x) c) by (rewrite app_length; reflexivity). reflexivity.
Qed.

(* copy(l[dst:], l[src:]) in decomposed form *)
Lemma copy_within_left a g1 g2 p :
  copy_within (a ++ g1 ++ g2 ++ p) (length a + length g1) (length a + length g1 + length g2) =
  Ok (a ++ g1 ++ p ++ skipn (length g1 + length p) (g1 ++ g2 ++ p)).
Proof.
  unfold copy_within. rewrite !app_length.
  replace (length a + length g1 <=? length a + (length g1 + (length g2 + length p)))%nat with true by (symmetry; apply Nat.leb_le; lia).
  replace (length a + length g1 + length g2 <=? length a + (length g1 + (length g2 + length p)))%nat with true by (symmetry; apply Nat.leb_le; lia).
  cbn [andb]. f_equal.
  replace (Nat.min _ _) with (length p) by lia.
  rewrite (app_assoc a g1). rewrite firstn_app_l by (rewrite app_length; lia).
  rewrite (app_assoc (a ++ g1) g2). rewrite (skipn_app_l ((a ++ g1) ++ g2) p) by (rewrite !app_length; lia).
  rewrite firstn_all.
  rewrite <- !app_assoc. do 2 f_equal. f_equal.
  rewrite skipn_app. rewrite skipn_all2 by lia. cbn [app].
  f_equal. lia.
Qed.

Lemma copy_within_right a g p z :
  copy_within (a ++ g ++ p ++ z) (length a + length g + length z) (length a + length g) =
  Ok (firstn (length a + length g + length z) (a ++ g ++ p ++ z) ++ p).
Proof.
  unfold copy_within. rewrite !app_length.
  replace (length a + length g + length z <=? length a + (length g + (length p + length z)))%nat with true by (symmetry; apply Nat.leb_le; lia).
  replace (length a + length g <=? length a + (length g + (length p + length z)))%nat with true by (symmetry; apply Nat.leb_le; lia).
  cbn [andb]. f_equal.
  replace (Nat.min _ _) with (length p) by lia.
  rewrite (app_assoc a g) at 2. rewrite (skipn_app_l (a ++ g) (p ++ z)) by (rewrite app_length; lia).
  rewrite (firstn_app_l p z) by reflexivity.
  rewrite (skipn_all2 (a ++ g ++ p ++ z)) by (rewrite !app_length; lia).
  rewrite app_nil_r. reflexivity.
Qed.

Lemma sl_to_all {A} (l : list A) n : n = length l -> sl_to l n = Ok l.
Proof. intros ->. unfold sl_to. rewrite Nat.leb_refl. rewrite firstn_all. reflexivity. Qed.
Lemma sl_to_app {A} (a b : list A) n : n = length a -> sl_to (a ++ b) n = Ok a.
Proof.
  intros ->. unfold sl_to. rewrite app_length.
  replace (length a <=? length a + length b)%nat with true by (symmetry; apply Nat.leb_le; lia).
  rewrite firstn_app_l by reflexivity. reflexivity.
Qed.

Definition len_ok (p : bytes) : Prop := Z.of_nat (length p) < 2 ^ 63.

Lemma len_u64 p : len_ok p -> u64_ok (Z.of_nat (length p)).
Proof. unfold len_ok, u64_ok. change (2 ^ 63) with 9223372036854775808. change (2 ^ 64) with 18446744073709551616. lia. Qed.

Definition Z2 : bytes := [0; 0].
Definition Z1 : bytes := [0].
Lemma Z2_len : length Z2 = 2%nat. Proof. reflexivity. Qed.
Lemma Z1_len : length Z1 = 1%nat. Proof. reflexivity. Qed.
Lemma Z2_split : Z2 = Z1 ++ Z1. Proof. reflexivity. Qed.

(* the shared tail of anyBytes/alwaysAnyBytes, for all three length classes *)
Theorem patch_length_spec pre p : len_ok p ->
  patch_length ((pre ++ Z2) ++ p) (length pre) (length (pre ++ Z2)) =
  Ok (pre ++ spec_varint (Z.of_nat (length p)) ++ p).
Proof.
  intros Hp. pose proof (len_u64 p Hp) as Hu.
  unfold patch_length.
  replace (length ((pre ++ Z2) ++ p) - length (pre ++ Z2))%nat with (length p) by (rewrite !app_length; lia).
  rewrite size_varint_ndigits by exact Hu. rewrite Nat2Z.id.
  pose proof (spec_varint_length _ Hu) as Hs.
  destruct (ndigits_bounds _ Hu) as [Hk _].
  set (L := length p) in *. set (k := ndigits (Z.of_nat L)) in *. set (V := spec_varint (Z.of_nat L)) in *.
  replace (length (pre ++ Z2)) with (length pre + 2)%nat by (rewrite app_length; rewrite ?Z2_len, ?Z1_len; lia).
  destruct (Nat.eqb k 2) eqn:E2.
  - apply Nat.eqb_eq in E2.
    replace (length pre + 2 - length pre)%nat with (length Z2) by (rewrite ?Z2_len, ?Z1_len; lia).
    rewrite <- app_assoc. apply put_uvarint_at_spec; [exact Hu|rewrite ?Z2_len, ?Z1_len; fold k; lia].
  - apply Nat.eqb_neq in E2. destruct (Nat.ltb 2 k) eqn:E3.
    + apply Nat.ltb_lt in E3.
      set (z := repeat 0 (k - 2)). assert (Hz : length z = (k - 2)%nat) by apply repeat_length.
      replace (((pre ++ Z2) ++ p) ++ z) with (pre ++ Z2 ++ p ++ z) by (rewrite <- !app_assoc; reflexivity).
      replace (length pre + k)%nat with (length pre + length Z2 + length z)%nat by (rewrite ?Z2_len, ?Z1_len; lia).
      replace (length pre + 2)%nat with (length pre + length Z2)%nat by (rewrite ?Z2_len, ?Z1_len; lia).
      rewrite copy_within_right. cbn [bind].
      rewrite ?Z2_len, ?Z1_len.
      rewrite firstn_app. rewrite (firstn_all2 pre) by lia.
      replace (length pre + 2 + length z - length pre)%nat with k by lia.
      set (X := firstn k (Z2 ++ p ++ z)).
      assert (HX : length X = k) by (unfold X; rewrite firstn_length, !app_length; rewrite ?Z2_len, ?Z1_len; lia).
      rewrite <- app_assoc. replace (X ++ p) with (X ++ p ++ []) by (rewrite app_nil_r; reflexivity).
      replace (length pre + 2 + length z)%nat with (length pre + k)%nat by lia.
      replace (put_uvarint_at (pre ++ X ++ p ++ []) (length pre) k (Z.of_nat L))
        with (put_uvarint_at (pre ++ X ++ p ++ []) (length pre) (length X) (Z.of_nat L)) by (rewrite HX; reflexivity).
      assert (HXk : length X = ndigits (Z.of_nat L)) by exact HX.
      rewrite (put_uvarint_at_spec pre X (p ++ []) (Z.of_nat L) Hu HXk). cbn [bind].
      rewrite app_nil_r. fold V. apply sl_to_all. rewrite !app_length. fold L. lia.
    + apply Nat.ltb_ge in E3. assert (Hk1 : k = 1%nat) by lia.
      replace ((pre ++ Z2) ++ p) with (pre ++ Z1 ++ Z1 ++ p) by (rewrite <- !app_assoc; reflexivity).
      rewrite Hk1.
      replace (length pre + 1)%nat with (length pre + length Z1)%nat by (rewrite ?Z2_len, ?Z1_len; lia).
      replace (length pre + 2)%nat with (length pre + length Z1 + length Z1)%nat by (rewrite ?Z2_len, ?Z1_len; lia).
      rewrite copy_within_left. cbn [bind]. rewrite ?Z2_len, ?Z1_len.
      assert (H1 : length Z1 = ndigits (Z.of_nat L)) by (rewrite ?Z2_len, ?Z1_len; fold k; lia).
      replace 1%nat with (length Z1) at 2 by reflexivity.
      rewrite (put_uvarint_at_spec pre Z1 _ (Z.of_nat L) Hu H1). cbn [bind]. fold V.
      match goal with |- context [pre ++ V ++ p ++ ?S] =>
        replace (pre ++ V ++ p ++ S) with ((pre ++ V ++ p) ++ S) by (rewrite <- !app_assoc; reflexivity) end.
      apply sl_to_app. rewrite !app_length. rewrite ?Z1_len. fold L. lia.
Qed.

Lemma valid_number_range num : valid_number num = true -> 1 <= num <= MaxValidNumber.
Proof.
  unfold valid_number. intros H. apply andb_true_iff in H. destruct H as [A B].
  apply Z.leb_le in A. apply Z.leb_le in B. lia.
Qed.

Lemma tag2_spec field : valid_number field = true -> append_tag field BytesType = spec_tag field 2.
Proof. intros H. apply append_tag_spec; [apply valid_number_range, H|unfold BytesType; lia]. Qed.

(* anyBytes: a callback that appends p (and reports ok) yields tag ++ len ++ p, or nothing at all *)
Theorem any_bytes_spec field fn buf p ok :
  valid_number field = true -> len_ok p ->
  (forall b, fn b = Ok (b ++ p, ok)) ->
  any_bytes field fn buf = Ok ((if ok then buf ++ spec_ld field p else buf), ok).
Proof.
  intros Hf Hp Hfn. unfold any_bytes. rewrite Hfn. cbn [bind]. rewrite tag2_spec by exact Hf.
  destruct ok; cbn [negb].
  - fold Z2. rewrite (patch_length_spec (buf ++ spec_tag field 2) p Hp). cbn [bind].
    unfold spec_ld. rewrite <- !app_assoc. reflexivity.
  - rewrite <- !app_assoc. rewrite sl_to_app by reflexivity. reflexivity.
Qed.

Theorem always_any_bytes_spec field fn buf p :
  valid_number field = true -> len_ok p ->
  (forall b, fn b = Ok (b ++ p)) ->
  always_any_bytes field fn buf = Ok (buf ++ spec_ld field p).
Proof.
  intros Hf Hp Hfn. unfold always_any_bytes. rewrite Hfn. cbn [bind]. rewrite tag2_spec by exact Hf.
  fold Z2. rewrite (patch_length_spec (buf ++ spec_tag field 2) p Hp).
  unfold spec_ld. rewrite <- !app_assoc. reflexivity.
Qed.

(* Message / AlwaysMessage / PresentMessage compose to a length-prefixed payload and
   leave no trace when the callback reports absence *)
Theorem enc_message_spec field fn buf p ok :
  valid_number field = true -> len_ok p -> (forall b, fn b = Ok (b ++ p, ok)) ->
  enc_message field fn buf = Ok (if ok then buf ++ spec_ld field p else buf).
Proof. intros Hf Hp Hfn. unfold enc_message. rewrite (any_bytes_spec field fn buf p ok) by assumption. reflexivity. Qed.

Theorem enc_always_message_spec field fn buf p ok :
  valid_number field = true -> len_ok p -> (forall b, fn b = Ok (b ++ p, ok)) ->
  enc_always_message field fn buf = Ok (buf ++ spec_ld field p).
Proof.
  intros Hf Hp Hfn. unfold enc_always_message.
  apply always_any_bytes_spec; [assumption|assumption|]. intros b. rewrite Hfn. reflexivity.
Qed.

Theorem enc_present_message_spec field fn buf p ok :
  valid_number field = true -> len_ok p -> (forall b, fn b = Ok (b ++ p, ok)) ->
  enc_present_message field fn buf = Ok (match p with [] => buf | _ => buf ++ spec_ld field p end).
Proof.
  intros Hf Hp Hfn. unfold enc_present_message.
  rewrite (any_bytes_spec field _ buf p (match p with [] => false | _ => true end)); try assumption.
  - destruct p; reflexivity.
  - intros b. rewrite Hfn. cbn [bind]. f_equal. f_equal. rewrite app_length.
    destruct p; cbn [length]; [rewrite Nat.add_0_r; apply Nat.ltb_irrefl|apply Nat.ltb_lt; lia].
Qed.
