(* C17 for GENERATED Encode methods: the interpreter of emitted programs (Schema/Interp.v enc_op / enc_msg), re-run on a
   concrete buffer (backing array with stale content, any capacity, any growth policy), refines the list-level run step for
   step. With T_enc the visible bytes of Marshal / MarshalBuffer are start ++ reference encoding whatever the buffer was. *)
From Coq Require Import List ZArith Lia Bool Arith.
From Pico Require Import Base.Res Base.ListX Base.Mach Wire.Wire Schema.Types Schema.Scalar Schema.Gen Enc.Enc Enc.CBuf Schema.Conv
  Schema.Interp Schema.Calls Enc.CBufProg.
Import ListNotations.
Open Scope nat_scope.

Section Msg.
Variable extra : nat -> nat -> list Z.
Notation sim := (@CBufProg.sim).
Notation refinesx := (CBufProg.refines).

(* ---- casts *)
Definition enc_sec_nanos_c (seconds nanos : Z) (b : cbuf) : result (cbuf * bool) :=
  Ok (enc_single_c extra KInt32 false 2 (VInt nanos) (enc_single_c extra KInt64 false 1 (VInt seconds) b), true).
Definition enc_duration_c (field : Z) (d : Z) (b : cbuf) : result cbuf :=
  let '(seconds, nanos) := dur_split d in enc_message_c extra field (enc_sec_nanos_c seconds nanos) b.
Definition enc_timestamp_c (field : Z) (sec nsec : Z) (b : cbuf) : result cbuf :=
  if time_is_zero sec nsec then Ok b else enc_message_c extra field (enc_sec_nanos_c sec (s32 nsec)) b.
Definition enc_map_c (kk vk : kind) (field : Z) (entries : list (val * val)) (b : cbuf) : result cbuf :=
  rfold (fun e b1 => always_any_bytes_c extra field
                       (fun b0 => Ok (enc_single_c extra vk false 2 (snd e) (enc_single_c extra kk false 1 (fst e) b0))) b1)
        entries b.
Definition enc_cast_elem_c (c : cast) (field : Z) (v : val) (b : cbuf) : result cbuf :=
  match c, v with
  | CastTs, VTime sec nsec => enc_timestamp_c field sec nsec b
  | CastDur, VDur d => enc_duration_c field d b
  | CastMap kk vk, VMap l => enc_map_c kk vk field l b
  | _, _ => Ok b
  end.

Lemma single_twice_sim k1 a1 f1 v1 k2 a2 f2 v2 b : wf b ->
  sim (Ok (enc_single k2 a2 f2 v2 (enc_single k1 a1 f1 v1 (view b))))
      (Ok (enc_single_c extra k2 a2 f2 v2 (enc_single_c extra k1 a1 f1 v1 b))).
Proof.
  intros Hw. destruct (enc_single_sim extra k1 a1 f1 v1 b Hw) as [b1 [E1 [V1 W1]]]. injection E1 as <-.
  rewrite <- V1. exact (enc_single_sim extra k2 a2 f2 v2 _ W1).
Qed.

Lemma enc_sec_nanos_refines s n : CBufProg.refines2 (enc_sec_nanos_c s n) (enc_sec_nanos s n).
Proof.
  intros b Hw. unfold enc_sec_nanos, enc_sec_nanos_c, sim2.
  destruct (single_twice_sim KInt64 false 1 (VInt s) KInt32 false 2 (VInt n) b Hw) as [b' [E [V W]]]. injection E as <-.
  eexists. split; [reflexivity|]. split; assumption.
Qed.
Lemma enc_duration_refines field d : refinesx (enc_duration_c field d) (enc_duration field d).
Proof.
  intros b Hw. unfold enc_duration, enc_duration_c. destruct (dur_split d) as [s n].
  exact (enc_message_refines extra field _ _ (enc_sec_nanos_refines s n) b Hw).
Qed.
Lemma enc_timestamp_refines field sec nsec : refinesx (enc_timestamp_c field sec nsec) (enc_timestamp field sec nsec).
Proof.
  intros b Hw. unfold enc_timestamp, enc_timestamp_c. destruct (time_is_zero sec nsec); [exists b; auto|].
  exact (enc_message_refines extra field _ _ (enc_sec_nanos_refines sec (s32 nsec)) b Hw).
Qed.
Lemma enc_map_refines kk vk field entries : refinesx (enc_map_c kk vk field entries) (enc_map kk vk field entries).
Proof.
  unfold enc_map, enc_map_c. apply rfold_refines. intros e _. apply always_any_bytes_refines.
  intros b0 Hw0. exact (single_twice_sim kk false 1 (fst e) vk false 2 (snd e) b0 Hw0).
Qed.
Lemma enc_cast_elem_refines c field v : refinesx (enc_cast_elem_c c field v) (enc_cast_elem c field v).
Proof.
  destruct c as [| |kk vk]; destruct v; cbn [enc_cast_elem enc_cast_elem_c];
    try (intros b Hw; exists b; auto; fail);
    [apply enc_timestamp_refines|apply enc_duration_refines|apply enc_map_refines].
Qed.

(* ---- emitted statements *)
Section Ops.
Variable progs : list prog.
Variable reca : nat -> option msgv -> bytes -> result (bytes * bool).
Variable recc : nat -> option msgv -> cbuf -> result (cbuf * bool).
Hypothesis rec_refines : forall idx m, CBufProg.refines2 (recc idx m) (reca idx m).

Definition enc_op_c (fs : list val) (un : bytes) (op : eop) (b : cbuf) : result cbuf :=
  match op with
  | EScalar k always rep ptr slot num =>
      let v := slot_get fs slot in
      if rep then enc_repeated_c extra k always num (as_list v) b
      else if ptr then
        match v with
        | VOpt (Some x) => Ok (enc_single_c extra k always num x b)
        | _ => Ok b
        end
      else Ok (enc_single_c extra k always num v b)
  | EMsgPtr slot num idx => enc_message_c extra num (recc idx (opt_of_msg (slot_get fs slot))) b
  | EMsgRepPtr slot num idx | EMsgRepVal slot num idx =>
      rfold (fun x b1 => enc_always_message_c extra num (recc idx (opt_of_msg x)) b1) (as_list (slot_get fs slot)) b
  | EMsgPresent slot num idx => enc_present_message_c extra num (recc idx (opt_of_msg (slot_get fs slot))) b
  | EMsgAlwaysVal slot num idx => enc_always_message_c extra num (recc idx (opt_of_msg (slot_get fs slot))) b
  | EEnum always slot num => Ok (enc_single_c extra KInt32 always num (slot_get fs slot) b)
  | ERepEnum slot num => enc_repeated_enum_c extra num (map as_int (as_list (slot_get fs slot))) b
  | ECast c ptr rep slot num =>
      let v := slot_get fs slot in
      let one (x : val) (b1 : cbuf) :=
          if ptr then match x with VOpt (Some y) => enc_cast_elem_c c num y b1 | _ => Ok b1 end
          else enc_cast_elem_c c num x b1 in
      if rep then rfold one (as_list v) b else one v b
  | EOpaque _ _ => Panic
  | EOneof slot inner =>
      match slot_get fs slot, inner with
      | VOpt (Some x), EScalar k always _ _ _ num => Ok (enc_single_c extra k always num x b)
      | VOpt (Some x), EEnum always _ num => Ok (enc_single_c extra KInt32 always num x b)
      | VOpt (Some x), ECast c _ _ _ num => enc_cast_elem_c c num x b
      | VMsg (Some m), EMsgPtr _ num idx => enc_message_c extra num (recc idx (Some m)) b
      | VOpt (Some x), EMsgAlwaysVal _ num idx =>
          match x with VEmb fs1 u1 => enc_always_message_c extra num (recc idx (Some (fs1, u1))) b | _ => Ok b end
      | _, _ => Ok b
      end
  | EUnrec => Ok (append_c extra b un)
  end.

Lemma id_sim b : wf b -> sim (Ok (view b)) (Ok b).
Proof. intros Hw. exists b. auto. Qed.

Lemma enc_op_refines fs un op : refinesx (enc_op_c fs un op) (enc_op reca fs un op).
Proof.
  intros b Hw. destruct op; cbn [enc_op enc_op_c].
  - destruct rep; [apply enc_repeated_refines; exact Hw|]. destruct ptr; [|apply enc_single_sim; exact Hw].
    destruct (slot_get fs slot) as [z|bb|[x|]|l|o|fs1 u1|l|s n|d]; try (apply id_sim; exact Hw). apply enc_single_sim; exact Hw.
  - apply enc_message_refines; [apply rec_refines|exact Hw].
  - revert b Hw. apply rfold_refines. intros x _. apply enc_always_message_refines, rec_refines.
  - apply enc_present_message_refines; [apply rec_refines|exact Hw].
  - revert b Hw. apply rfold_refines. intros x _. apply enc_always_message_refines, rec_refines.
  - apply enc_always_message_refines; [apply rec_refines|exact Hw].
  - apply enc_single_sim; exact Hw.
  - apply enc_repeated_enum_refines; exact Hw.
  - assert (Hone : forall x, refinesx
        (fun b1 => if ptr then match x with VOpt (Some y) => enc_cast_elem_c c num y b1 | _ => Ok b1 end else enc_cast_elem_c c num x b1)
        (fun v1 => if ptr then match x with VOpt (Some y) => enc_cast_elem c num y v1 | _ => Ok v1 end else enc_cast_elem c num x v1)).
    { intros x b1 Hw1. destruct ptr; [|apply enc_cast_elem_refines; exact Hw1].
      destruct x as [z|bb|[y|]|l|o|fs1 u1|l|s n|d]; try (apply id_sim; exact Hw1). apply enc_cast_elem_refines; exact Hw1. }
    destruct rep; [|apply Hone; exact Hw]. revert b Hw. apply rfold_refines. intros x _. apply Hone.
  - exact I.
  - destruct (slot_get fs slot) as [z|bb|[x|]|l|[m|]|fs1 u1|l|s n|d]; try (apply id_sim; exact Hw).
    + destruct op; try (apply id_sim; exact Hw).
      * apply enc_single_sim; exact Hw.
      * destruct x as [z|bb|o|l|o|fs1 u1|l|s n|d]; try (apply id_sim; exact Hw).
        apply enc_always_message_refines; [apply rec_refines|exact Hw].
      * apply enc_single_sim; exact Hw.
      * apply enc_cast_elem_refines; exact Hw.
    + destruct op; try (apply id_sim; exact Hw). apply enc_message_refines; [apply rec_refines|exact Hw].
  - destruct (view_append extra b un Hw) as [V W]. exists (append_c extra b un). auto.
Qed.
End Ops.

(* ---- the Encode method of message idx on a concrete buffer *)
Fixpoint enc_msg_c (fuel : nat) (progs : list prog) (idx : nat) (m : option msgv) (b : cbuf) : result (cbuf * bool) :=
  match fuel with
  | O => Panic
  | S f =>
      match m with
      | None => Ok (b, false)
      | Some (fs, un) =>
          match nth_error progs idx with
          | None => Panic
          | Some p =>
              let! b' := rfold (enc_op_c (enc_msg_c f progs) fs un) (p_enc p) b in
              Ok (b', true)
          end
      end
  end.

Theorem enc_msg_refines progs : forall fuel idx m, CBufProg.refines2 (enc_msg_c fuel progs idx m) (enc_msg fuel progs idx m).
Proof.
  induction fuel as [|f IH]; intros idx m b Hw; [exact I|]. cbn [enc_msg enc_msg_c].
  destruct m as [[fs un]|]; [|exists b; auto].
  destruct (nth_error progs idx) as [p|]; [|exact I].
  pose proof (rfold_refines (enc_op_c (enc_msg_c f progs) fs un) (enc_op (enc_msg f progs) fs un) (p_enc p)
                (fun op _ => enc_op_refines (enc_msg f progs) (enc_msg_c f progs) IH fs un op) b Hw) as H.
  unfold CBufProg.sim in H. unfold sim2.
  destruct (rfold (enc_op (enc_msg f progs) fs un) (p_enc p) (view b)) as [v|]; [|exact I].
  destruct H as [b' [E [V W]]]. rewrite E. cbn [bind]. exists b'. auto.
Qed.

(* picobuf.MarshalBuffer(msg, buffer): the buffer is cut to length 0, msg.Encode appends; Marshal is the same on a nil buffer *)
Definition pico_marshal_buffer (fuel : nat) (progs : list prog) (idx : nat) (m : msgv) (b : cbuf) : result cbuf :=
  let! '(b', _) := enc_msg_c fuel progs idx (Some m) (reset_c b) in Ok b'.

Theorem marshal_buffer_is_marshal fuel progs idx m b v : wf b -> pico_marshal fuel progs idx m = Ok v ->
  exists b', pico_marshal_buffer fuel progs idx m b = Ok b' /\ view b' = v /\ wf b'.
Proof.
  intros Hw Hm. unfold pico_marshal in Hm. unfold pico_marshal_buffer.
  destruct (view_reset b) as [V0 W0]. pose proof (enc_msg_refines progs fuel idx (Some m) (reset_c b) (W0 Hw)) as H.
  rewrite V0 in H. unfold sim2 in H. destruct (enc_msg fuel progs idx (Some m) []) as [[v0 ok]|]; [|discriminate Hm].
  cbn [bind] in Hm. injection Hm as <-. destruct H as [b' [E [V W]]]. rewrite E. cbn [bind]. exists b'. auto.
Qed.
End Msg.
